//! btdht-sim: deterministic simulation with fault injection for equalitie/btdht.

mod alloc;
mod entropy;
mod exec;
mod krpc;
mod log;
mod minimise;
mod net;
mod props;
mod stubs;
mod sup;
mod tablemon;

use props::Tier;

#[global_allocator]
static GLOBAL: alloc::Counting = alloc::Counting;

fn tier_of(s: &str) -> Tier {
    if s == "thorough" {
        Tier::Thorough
    } else {
        Tier::Quick
    }
}

fn usage() -> i32 {
    eprintln!(
        "usage: btdht-sim check <ID> [quick|thorough]\n       btdht-sim replay <file>\n       btdht-sim selftest [n]\n       btdht-sim show <ID> <idx> [quick|thorough]   (print scenario + verdict)\n       btdht-sim trace <ID> <idx>   (print event log)"
    );
    2
}

fn main() {
    exec::install_panic_hook();
    let args: Vec<String> = std::env::args().collect();
    let code = match args.get(1).map(|s| s.as_str()) {
        Some("check") if args.len() >= 3 => {
            let tier = tier_of(
                args.get(3)
                    .map(|s| s.as_str())
                    .unwrap_or(&std::env::var("VERIF_TIER").unwrap_or_else(|_| "quick".into())),
            );
            sup::check(&args[2], tier)
        }
        Some("worker") if args.len() >= 9 => sup::worker(
            &args[2],
            tier_of(&args[3]),
            args[4].parse().unwrap_or(0),
            args[5].parse().unwrap_or(0),
            args[6].parse().unwrap_or(1),
            args[7].parse().unwrap_or(0),
            args[8].parse().unwrap_or(60),
        ),
        Some("replay") if args.len() >= 3 => sup::replay(&args[2]),
        Some("trace-replay") if args.len() >= 3 => {
            // print the full event log of a replay file's scenario
            let txt = std::fs::read_to_string(&args[2]).unwrap_or_default();
            match serde_json::from_str::<sup::ReplayFile>(&txt) {
                Ok(r) => {
                    if let Some(p) = props::by_id(&r.property) {
                        if let Ok(run) = p.run(&r.scenario) {
                            for (i, e) in run.log.iter().enumerate() {
                                println!("{i:6} {}", log::fmt_ev(e));
                            }
                            for pn in &run.panics {
                                println!("PANIC {pn}");
                            }
                        }
                    }
                    0
                }
                Err(e) => {
                    eprintln!("bad replay file: {e}");
                    2
                }
            }
        }
        Some("decode") if args.len() >= 3 => {
            // debugging aid: run the repository's decoder on a byte string given as text or hex:...
            let b = if let Some(h) = args[2].strip_prefix("hex:") { krpc::unhex(h) } else { args[2].as_bytes().to_vec() };
            println!("btdht: {:?}", btdht::message::Message::decode(&b));
            println!("sim:   {:?}", krpc::Msg::parse(&b));
            0
        }
        Some("selftest") => selftest(args.get(2).and_then(|s| s.parse().ok()).unwrap_or(24)),
        Some("show") | Some("trace") if args.len() >= 4 => {
            let p = match props::by_id(&args[2]) {
                Some(p) => p,
                None => std::process::exit(2),
            };
            let idx: u64 = args[3].parse().unwrap_or(0);
            let tier = tier_of(args.get(4).map(|s| s.as_str()).unwrap_or("quick"));
            let sc = p.generate(sup::seed_from_env(), idx, tier);
            if args[1] == "show" {
                println!("{}", serde_json::to_string_pretty(&sc).unwrap());
            }
            let (mut line, mut run) = sup::evaluate(p.as_ref(), &sc, idx, 0, true);
            if std::env::var_os("VERIF_EXPLICIT").is_some() {
                let mut sc2 = sc.clone();
                sc2.net.explicit = Some(run.as_ref().map(|r| r.fired.clone()).unwrap_or_default());
                sc2.net.clear_random_faults();
                let (l2, r2) = sup::evaluate(p.as_ref(), &sc2, idx, 0, true);
                line = l2;
                run = r2;
            }
            if args[1] == "trace" {
                if let Some(run) = &run {
                    for (i, e) in run.log.iter().enumerate() {
                        println!("{i:6} {}", log::fmt_ev(e));
                    }
                    for pn in &run.panics {
                        println!("PANIC {pn}");
                    }
                }
            }
            println!("{}", serde_json::to_string_pretty(&line).unwrap());
            0
        }
        _ => usage(),
    };
    std::process::exit(code);
}

/// Determinism self-test: every family, n indices, executed in two batches with different worker
/// counts (different processes) and once more in-process; all digests must agree.
fn selftest(n: u64) -> i32 {
    let seed = sup::seed_from_env();
    let mut bad = 0;
    for p in props::all() {
        let id = p.id();
        let a = sup::run_batch(id, Tier::Quick, seed, n, 16, 600, 300);
        let b = sup::run_batch(id, Tier::Quick, seed, n, 3, 600, 300);
        let mut mism = 0;
        let mut cmp = 0;
        for la in &a.lines {
            if let Some(lb) = b.lines.iter().find(|l| l.i == la.i && l.sub == la.sub) {
                cmp += 1;
                if la.digest != lb.digest || la.digest.is_empty() {
                    mism += 1;
                    println!("  {id} run {}.{}: {} vs {}", la.i, la.sub, la.digest, lb.digest);
                }
            }
        }
        // in-process repeat of the first few, plus explicit-mode re-execution
        let mut inproc = 0;
        for i in 0..n.min(4) {
            let sc = p.generate(seed, i, Tier::Quick);
            let (l1, run) = sup::evaluate(p.as_ref(), &sc, i, 0, false);
            if let Some(la) = a.lines.iter().find(|l| l.i == i && l.sub == 0) {
                inproc += 1;
                if la.digest != l1.digest {
                    mism += 1;
                    println!("  {id} run {i}: in-process {} vs worker {}", l1.digest, la.digest);
                }
            }
            if let Some(run) = run {
                if sc.net.explicit.is_none() && sc.net.any_random_faults() {
                    let mut sc2 = sc.clone();
                    sc2.net.explicit = Some(run.fired.clone());
                    sc2.net.clear_random_faults();
                    let (l2, _) = sup::evaluate(p.as_ref(), &sc2, i, 0, false);
                    if l2.digest != l1.digest {
                        mism += 1;
                        println!("  {id} run {i}: explicit-mode {} vs {}", l2.digest, l1.digest);
                    }
                }
            }
        }
        println!("selftest {id}: compared {cmp} cross-process + {inproc} in-process digests, mismatches {mism}, deaths {}", a.deaths.len() + b.deaths.len());
        bad += mism;
        if cmp == 0 {
            bad += 1;
        }
    }
    if bad == 0 {
        println!("selftest OK");
        0
    } else {
        println!("selftest FAILED");
        2
    }
}

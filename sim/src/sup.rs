//! Supervisor / worker process model, aggregation, evidence, replay files.

use crate::exec::Scenario;
use crate::log::Violation;
use crate::props::{self, Property, Tier};
use serde::{Deserialize, Serialize};
use serde_json::json;
use std::collections::{BTreeMap, HashSet};
use std::io::{BufRead, BufReader, Write};
use std::path::PathBuf;
use std::process::{Command, Stdio};
use std::sync::mpsc;
use std::time::{Duration, Instant};

pub fn root() -> PathBuf {
    if let Some(r) = std::env::var_os("VERIF_ROOT") {
        return PathBuf::from(r);
    }
    PathBuf::from(env!("CARGO_MANIFEST_DIR")).parent().unwrap().to_path_buf()
}

pub const DEFAULT_SEED: u64 = 20260923;

pub fn seed_from_env() -> u64 {
    std::env::var("VERIF_SEED")
        .ok()
        .and_then(|s| s.trim().parse::<u64>().ok())
        .unwrap_or(DEFAULT_SEED)
}

#[derive(Serialize, Deserialize, Debug, Clone)]
pub struct RunLine {
    pub i: u64,
    pub sub: u64,
    pub digest: String,
    pub order: String,
    pub nontrivial: bool,
    pub inconclusive: bool,
    pub violations: Vec<Violation>,
    pub stats: BTreeMap<String, u64>,
    pub reach: BTreeMap<String, u64>,
    pub sim_ms: u64,
    pub events: u64,
    pub wall_us: u64,
    pub sample: serde_json::Value,
    pub err: Option<String>,
}

/// Execute one scenario and judge it.
pub fn evaluate(p: &dyn Property, sc: &Scenario, i: u64, sub: u64, want_sample: bool) -> (RunLine, Option<crate::exec::RunLog>) {
    let t0 = Instant::now();
    match p.run(sc) {
        Ok(run) => {
            let v = p.check(sc, &run);
            let line = RunLine {
                i,
                sub,
                digest: format!("{:016x}", run.digest),
                order: format!("{:016x}", run.order_digest),
                nontrivial: v.nontrivial,
                inconclusive: v.inconclusive,
                violations: v.violations,
                stats: run.stats.clone(),
                reach: v.reach,
                sim_ms: run.end_ms,
                events: run.log.len() as u64,
                wall_us: t0.elapsed().as_micros() as u64,
                sample: if want_sample {
                    let mut smp = v.sample;
                    if i == 0 && sub == 0 {
                        // one short trace, so that a reader can see what a case looks like
                        let head: Vec<String> = run.log.iter().take(40).map(crate::log::fmt_ev).map(|l| l.chars().take(220).collect()).collect();
                        if let serde_json::Value::Object(m) = &mut smp {
                            m.insert("trace_head".into(), serde_json::json!(head));
                        }
                    }
                    smp
                } else {
                    serde_json::Value::Null
                },
                err: None,
            };
            (line, Some(run))
        }
        Err(e) => (
            RunLine {
                i,
                sub,
                digest: String::new(),
                order: String::new(),
                nontrivial: false,
                inconclusive: true,
                violations: vec![],
                stats: BTreeMap::new(),
                reach: BTreeMap::new(),
                sim_ms: 0,
                events: 0,
                wall_us: t0.elapsed().as_micros() as u64,
                sample: serde_json::Value::Null,
                err: Some(e),
            },
            None,
        ),
    }
}

/// Worker: runs indices start, start+stride, ... < end until the deadline.
pub fn worker(id: &str, tier: Tier, seed: u64, start: u64, stride: u64, end: u64, budget_s: u64) -> i32 {
    let p = match props::by_id(id) {
        Some(p) => p,
        None => {
            eprintln!("unknown property {id}");
            return 2;
        }
    };
    let t0 = Instant::now();
    let out = std::io::stdout();
    let mut i = start;
    while i < end {
        if t0.elapsed() > Duration::from_secs(budget_s) {
            break;
        }
        {
            let mut o = out.lock();
            let _ = writeln!(o, "START {i} 0");
            let _ = o.flush();
        }
        let sc = p.generate(seed, i, tier);
        let (line, run) = evaluate(p.as_ref(), &sc, i, 0, i < 3 * stride);
        let base_clean = line.violations.is_empty() && line.err.is_none();
        {
            let mut o = out.lock();
            let _ = writeln!(o, "DONE {}", serde_json::to_string(&line).unwrap());
            let _ = o.flush();
        }
        if base_clean {
            if let Some(run) = run {
                let variants = p.sweep(&sc, &run, tier);
                drop(run);
                for (k, vsc) in variants.iter().enumerate() {
                    if t0.elapsed() > Duration::from_secs(budget_s) {
                        break;
                    }
                    let sub = k as u64 + 1;
                    {
                        let mut o = out.lock();
                        let _ = writeln!(o, "START {i} {sub}");
                        let _ = o.flush();
                    }
                    let (l, _) = evaluate(p.as_ref(), vsc, i, sub, false);
                    let mut o = out.lock();
                    let _ = writeln!(o, "DONE {}", serde_json::to_string(&l).unwrap());
                    let _ = o.flush();
                }
            }
        }
        i += stride;
    }
    println!("END");
    0
}

enum WMsg {
    Start(usize, u64, u64),
    Done(usize, Box<RunLine>),
    End(usize),
    Exit(usize, Option<i32>),
}

pub struct Batch {
    pub lines: Vec<RunLine>,
    /// (idx, sub, how) for workers that died or hung mid-run
    pub deaths: Vec<(u64, u64, String)>,
    pub wall_s: f64,
    pub planned: u64,
}

fn spawn_worker(
    exe: &std::path::Path,
    w: usize,
    id: &str,
    tier: Tier,
    seed: u64,
    start: u64,
    stride: u64,
    end: u64,
    budget_s: u64,
    tx: mpsc::Sender<WMsg>,
) -> std::process::Child {
    let mut child = Command::new(exe)
        .args([
            "worker",
            id,
            tier.name(),
            &seed.to_string(),
            &start.to_string(),
            &stride.to_string(),
            &end.to_string(),
            &budget_s.to_string(),
        ])
        .stdout(Stdio::piped())
        .stderr(Stdio::null())
        .spawn()
        .expect("spawn worker");
    let stdout = child.stdout.take().unwrap();
    std::thread::spawn(move || {
        let rd = BufReader::new(stdout);
        for line in rd.lines() {
            let line = match line {
                Ok(l) => l,
                Err(_) => break,
            };
            if let Some(rest) = line.strip_prefix("START ") {
                let mut it = rest.split_whitespace();
                let i = it.next().and_then(|x| x.parse().ok()).unwrap_or(0);
                let s = it.next().and_then(|x| x.parse().ok()).unwrap_or(0);
                let _ = tx.send(WMsg::Start(w, i, s));
            } else if let Some(rest) = line.strip_prefix("DONE ") {
                if let Ok(l) = serde_json::from_str::<RunLine>(rest) {
                    let _ = tx.send(WMsg::Done(w, Box::new(l)));
                }
            } else if line == "END" {
                let _ = tx.send(WMsg::End(w));
            }
        }
        let _ = tx.send(WMsg::Exit(w, None));
    });
    child
}

/// Run a batch over `runs` indices with up to `jobs` worker processes.
pub fn run_batch(id: &str, tier: Tier, seed: u64, runs: u64, jobs: usize, budget_s: u64, hang_s: u64) -> Batch {
    let exe = std::env::current_exe().expect("current_exe");
    let t0 = Instant::now();
    let jobs = jobs.max(1).min(runs.max(1) as usize);
    let (tx, rx) = mpsc::channel();
    struct W {
        child: std::process::Child,
        current: Option<(u64, u64, Instant)>,
        ended: bool,
        exited: bool,
        next_start: u64,
        killed_for_hang: bool,
    }
    let stride = jobs as u64;
    let mut ws: Vec<W> = (0..jobs)
        .map(|w| W {
            child: spawn_worker(&exe, w, id, tier, seed, w as u64, stride, runs, budget_s, tx.clone()),
            current: None,
            ended: false,
            exited: false,
            next_start: w as u64,
            killed_for_hang: false,
        })
        .collect();
    let mut lines = Vec::new();
    let mut deaths = Vec::new();
    loop {
        if ws.iter().all(|w| w.exited) {
            break;
        }
        match rx.recv_timeout(Duration::from_millis(500)) {
            Ok(WMsg::Start(w, i, s)) => {
                ws[w].current = Some((i, s, Instant::now()));
                ws[w].next_start = i;
            }
            Ok(WMsg::Done(w, l)) => {
                ws[w].current = None;
                lines.push(*l);
            }
            Ok(WMsg::End(w)) => ws[w].ended = true,
            Ok(WMsg::Exit(w, _)) => {
                let status = ws[w].child.wait().ok();
                if !ws[w].ended {
                    // died mid-run: attribute to the announced index, restart after it
                    let (i, s) = ws[w].current.map(|c| (c.0, c.1)).unwrap_or((ws[w].next_start, 0));
                    let how = if ws[w].killed_for_hang {
                        format!("HANG: no result within {hang_s} s of wall time, worker killed by the supervisor")
                    } else {
                        match status {
                            Some(st) => format!("worker exited with {st}"),
                            None => "worker vanished".to_string(),
                        }
                    };
                    ws[w].killed_for_hang = false;
                    deaths.push((i, s, how));
                    let next = i + stride;
                    let remaining = budget_s.saturating_sub(t0.elapsed().as_secs());
                    if next < runs && remaining > 0 && deaths.len() < 50 {
                        ws[w].child = spawn_worker(&exe, w, id, tier, seed, next, stride, runs, remaining, tx.clone());
                        ws[w].current = None;
                        ws[w].next_start = next;
                        continue;
                    }
                }
                ws[w].exited = true;
            }
            Err(mpsc::RecvTimeoutError::Timeout) => {
                for w in ws.iter_mut() {
                    if let Some((_, _, since)) = w.current {
                        if since.elapsed() > Duration::from_secs(hang_s) && !w.exited {
                            w.killed_for_hang = true;
                            let _ = w.child.kill();
                        }
                    }
                }
            }
            Err(_) => break,
        }
    }
    lines.sort_by_key(|l| (l.i, l.sub));
    Batch { lines, deaths, wall_s: t0.elapsed().as_secs_f64(), planned: runs }
}

#[derive(Serialize, Deserialize, Debug, Clone)]
pub struct KnownFinding {
    pub status: String, // "open" | "fixed"
    pub property: String,
    pub clause: String,
    pub what: String,
    #[serde(default)]
    pub commit: Option<String>,
}

pub fn known_findings() -> Vec<KnownFinding> {
    let p = root().join("known_findings.json");
    std::fs::read_to_string(p)
        .ok()
        .and_then(|s| serde_json::from_str::<Vec<KnownFinding>>(&s).ok())
        .unwrap_or_default()
}

#[derive(Serialize, Deserialize, Debug, Clone)]
pub struct ReplayFile {
    pub property: String,
    pub seed: u64,
    pub idx: u64,
    pub sub: u64,
    pub tier: String,
    pub violation: Violation,
    pub digest: String,
    pub minimised: bool,
    pub original_steps: usize,
    pub original_faults: usize,
    pub scenario: Scenario,
}

pub fn write_replay(r: &ReplayFile) -> PathBuf {
    let dir = root().join("replays");
    let _ = std::fs::create_dir_all(&dir);
    let path = dir.join(format!("{}-{}-{}-{}.json", r.property, r.seed, r.idx, r.sub));
    std::fs::write(&path, serde_json::to_string_pretty(r).unwrap()).expect("write replay");
    path
}

/// `replay <file>`: exit 1 = violation reproduced (same clause, same digest), 0 = no violation,
/// 3 = something else happened.
pub fn replay(path: &str) -> i32 {
    let txt = match std::fs::read_to_string(path) {
        Ok(t) => t,
        Err(e) => {
            eprintln!("cannot read {path}: {e}");
            return 2;
        }
    };
    let r: ReplayFile = match serde_json::from_str(&txt) {
        Ok(r) => r,
        Err(e) => {
            eprintln!("bad replay file: {e}");
            return 2;
        }
    };
    let p = match props::by_id(&r.property) {
        Some(p) => p,
        None => return 2,
    };
    let (line, _) = evaluate(p.as_ref(), &r.scenario, r.idx, r.sub, true);
    println!("replay property={} seed={} idx={} digest={} (recorded {})", r.property, r.seed, r.idx, line.digest, r.digest);
    for v in &line.violations {
        println!("  violation clause={} t={} {}", v.clause, v.t, v.detail);
    }
    if let Some(e) = &line.err {
        println!("  run error: {e}");
    }
    let same_clause = line.violations.iter().any(|v| v.clause == r.violation.clause);
    if same_clause && line.digest == r.digest {
        println!("REPRODUCED property={} clause={}", r.property, r.violation.clause);
        1
    } else if line.violations.is_empty() && line.err.is_none() {
        println!("NOT-REPRODUCED (no violation)");
        0
    } else {
        println!("DIFFERENT outcome");
        3
    }
}

pub fn replay_in_fresh_process(path: &std::path::Path) -> Option<i32> {
    let exe = std::env::current_exe().ok()?;
    let out = Command::new(exe).arg("replay").arg(path).stdout(Stdio::null()).status().ok()?;
    out.code()
}

fn distinct<'a>(it: impl Iterator<Item = &'a String>) -> usize {
    it.collect::<HashSet<_>>().len()
}

/// The `check` command.
pub fn check(id: &str, tier: Tier) -> i32 {
    let p = match props::by_id(id) {
        Some(p) => p,
        None => {
            eprintln!("unknown property {id}");
            return 2;
        }
    };
    let seed = seed_from_env();
    println!("VERIF_SEED={seed} property={id} tier={}", tier.name());
    let jobs: usize = std::env::var("VERIF_JOBS").ok().and_then(|s| s.parse().ok()).unwrap_or(16);
    let runs: u64 = std::env::var("VERIF_RUNS").ok().and_then(|s| s.parse().ok()).unwrap_or(p.runs(tier));
    let budget = p.wall_budget_s(tier);
    let batch = run_batch(id, tier, seed, runs, jobs, budget, 1500);

    let known = known_findings();
    let is_known = |v: &Violation| {
        known
            .iter()
            .any(|k| k.status == "open" && k.property == v.property && k.clause == v.clause)
    };

    let mut harness_errors: Vec<String> = batch
        .lines
        .iter()
        .filter_map(|l| l.err.as_ref().map(|e| format!("run {}.{}: {e}", l.i, l.sub)))
        .collect();
    // worker deaths are violations of the properties that promise survival, harness errors elsewhere
    let mut death_violations: Vec<(u64, u64, Violation)> = Vec::new();
    for (i, s, how) in &batch.deaths {
        if (id == "C14" || id == "C15") && !how.starts_with("HANG") {
            death_violations.push((
                *i,
                *s,
                Violation { property: id.to_string(), clause: "process_death".into(), detail: how.clone(), t: 0 },
            ));
        } else {
            harness_errors.push(format!("run {i}.{s}: {how}"));
        }
    }

    let mut new_violations: Vec<(u64, u64, Violation)> = death_violations;
    let mut known_hits: BTreeMap<String, (u64, String)> = BTreeMap::new();
    for l in &batch.lines {
        for v in &l.violations {
            if is_known(v) {
                let e = known_hits.entry(v.clause.clone()).or_insert((0, v.detail.clone()));
                e.0 += 1;
            } else {
                new_violations.push((l.i, l.sub, v.clone()));
            }
        }
    }
    for (clause, (n, detail)) in &known_hits {
        let what = known.iter().find(|k| &k.clause == clause).map(|k| k.what.clone()).unwrap_or_default();
        println!("KNOWN-FINDING: property={id} clause={clause} runs={n} {what} (e.g. {detail})");
    }

    // aggregate
    let evaluations = batch.lines.len() as u64;
    let nontrivial: Vec<&RunLine> = batch.lines.iter().filter(|l| l.nontrivial && !l.inconclusive).collect();
    let distinct_nontrivial = distinct(nontrivial.iter().map(|l| &l.order));
    let distinct_full = distinct(batch.lines.iter().map(|l| &l.digest));
    let mut stats: BTreeMap<String, u64> = BTreeMap::new();
    let mut reach: BTreeMap<String, u64> = BTreeMap::new();
    let mut sim_ms = 0u64;
    let mut events = 0u64;
    for l in &batch.lines {
        for (k, v) in &l.stats {
            let e = stats.entry(k.clone()).or_insert(0);
            if k.ends_with("_peak") || k.ends_with("_max") {
                *e = (*e).max(*v);
            } else {
                *e += v;
            }
        }
        for (k, v) in &l.reach {
            *reach.entry(k.clone()).or_insert(0) += v;
        }
        sim_ms += l.sim_ms;
        events += l.events;
    }
    let inconclusive = batch.lines.iter().filter(|l| l.inconclusive).count();
    let samples: Vec<serde_json::Value> = batch
        .lines
        .iter()
        .filter(|l| !l.sample.is_null())
        .take(3)
        .map(|l| json!({"idx": l.i, "sub": l.sub, "digest": l.digest, "case": l.sample}))
        .collect();

    // thorough tier: required reach probes must be non-zero
    if tier == Tier::Thorough {
        for k in p.required_reach() {
            if reach.get(k).copied().unwrap_or(0) == 0 {
                harness_errors.push(format!("reach probe '{k}' stayed at zero"));
            }
        }
    }

    let mut exit = 0;
    let mut replay_paths = Vec::new();
    if let Some((i, sub, v)) = new_violations.first().cloned() {
        // regenerate, minimise, write replay, verify in a fresh process
        // a panic while minimising (an oracle tripping over a shrunk scenario) must not take the
        // check down: fall back to the unminimised case
        let rf = match std::panic::catch_unwind(std::panic::AssertUnwindSafe(|| crate::minimise::build_replay(p.as_ref(), seed, i, sub, tier, &v))) {
            Ok(r) => r,
            Err(_) => {
                harness_errors.push(format!("minimiser panicked on run {i}.{sub}; replay written unminimised"));
                let mut sc = p.generate(seed, i, tier);
                if sub > 0 {
                    if let Ok(base) = p.run(&sc) {
                        if let Some(x) = p.sweep(&sc, &base, tier).get(sub as usize - 1) {
                            sc = x.clone();
                        }
                    }
                }
                let (line, _) = evaluate(p.as_ref(), &sc, i, sub, false);
                line.violations.iter().find(|x| x.clause == v.clause).cloned().map(|viol| ReplayFile {
                    property: id.into(),
                    seed,
                    idx: i,
                    sub,
                    tier: tier.name().into(),
                    violation: viol,
                    digest: line.digest.clone(),
                    minimised: false,
                    original_steps: sc.steps.len(),
                    original_faults: 0,
                    scenario: sc,
                })
            }
        };
        match rf {
            Some(rf) => {
                let path = write_replay(&rf);
                let code = replay_in_fresh_process(&path);
                if code == Some(1) {
                    println!("VIOLATION property={id} replay={}", path.display());
                    println!("  clause={} t={} {}", rf.violation.clause, rf.violation.t, rf.violation.detail);
                    exit = 1;
                    replay_paths.push(path.display().to_string());
                } else {
                    harness_errors.push(format!(
                        "violation {} at run {i}.{sub} did not replay (exit {:?}): {}",
                        v.clause, code, v.detail
                    ));
                }
            }
            None => {
                if v.clause == "process_death" {
                    // cannot be replayed in-process by construction; report with the generated scenario
                    let sc = p.generate(seed, i, tier);
                    let rf = ReplayFile {
                        property: id.into(),
                        seed,
                        idx: i,
                        sub,
                        tier: tier.name().into(),
                        violation: v.clone(),
                        digest: String::new(),
                        minimised: false,
                        original_steps: sc.steps.len(),
                        original_faults: 0,
                        scenario: sc,
                    };
                    let path = write_replay(&rf);
                    // replaying a process death must kill the fresh process as well
                    let code = replay_in_fresh_process(&path);
                    if code.is_none() || code.map(|c| c > 3).unwrap_or(false) {
                        println!("VIOLATION property={id} replay={}", path.display());
                        println!("  clause=process_death {}", v.detail);
                        exit = 1;
                        replay_paths.push(path.display().to_string());
                    } else {
                        harness_errors.push(format!("worker death at run {i}.{sub} did not replay (exit {code:?}): {}", v.detail));
                    }
                } else {
                    harness_errors.push(format!("violation {} at run {i}.{sub} vanished on re-execution: {}", v.clause, v.detail));
                }
            }
        }
    }

    let wall = batch.wall_s;
    let per_hour = if wall > 0.0 { evaluations as f64 / wall * 3600.0 } else { 0.0 };
    let fault_counts: BTreeMap<&String, &u64> = stats.iter().filter(|(k, _)| k.starts_with("fault_")).collect();
    let ev = json!({
        "property_id": id,
        "tier": tier.name(),
        "seed": seed,
        "level": p.level(),
        "wall_s": wall,
        "violations": new_violations.len(),
        "assumptions": p.assumptions(),
        "coverage": {
            "evaluations": evaluations,
            "distinct_nontrivial": distinct_nontrivial,
            "rule": p.rule(),
            "samples": samples,
            "planned_scenarios": batch.planned,
            "distinct_full_digests": distinct_full,
            "inconclusive_runs": inconclusive,
            "runs_per_hour": per_hour,
            "seeds_per_hour": per_hour,
            "simulated_time_s": sim_ms as f64 / 1000.0,
            "events_recorded": events,
            "faults_fired": fault_counts,
            "traffic": stats.iter().filter(|(k, _)| !k.starts_with("fault_")).collect::<BTreeMap<_, _>>(),
            "reach_probes": reach,
            "known_findings_seen": known_hits.iter().map(|(k, v)| (k.clone(), v.0)).collect::<BTreeMap<_, _>>(),
            "worker_deaths": batch.deaths.len(),
            "harness_errors": harness_errors,
            "replays": replay_paths,
            "components": {
                "real_code": ["btdht crate built from the repository working tree (handler, bootstrap, lookup, refresh, table, bucket, node, token, storage, message/codec, timer, transaction)", "torrust-serde-bencode", "tokio scheduler and timer wheel (paused clock)", "rand (seeded through the interposed getrandom)"],
                "stubs": ["UDP socket (SimSocket via btdht::SocketTrait)", "OS clock (tokio paused clock + hook H1)", "OS entropy (interposed getrandom)", "DNS (IP-literal routers only)", "remote peers (StubWorld, probes, adversary; independent KRPC codec)"]
            }
        }
    });
    let evdir = root().join("evidence");
    let _ = std::fs::create_dir_all(&evdir);
    let evpath = evdir.join(format!("{id}.json"));
    if let Err(e) = std::fs::write(&evpath, serde_json::to_string_pretty(&ev).unwrap()) {
        eprintln!("cannot write evidence: {e}");
        return 2;
    }
    println!(
        "property={id} evaluations={evaluations} distinct_nontrivial={distinct_nontrivial} inconclusive={inconclusive} sim_time_s={:.0} wall_s={:.1} new_violations={} known={}",
        sim_ms as f64 / 1000.0,
        wall,
        new_violations.len(),
        known_hits.len()
    );
    if exit == 0 && !harness_errors.is_empty() {
        for e in &harness_errors {
            eprintln!("HARNESS-ERROR {e}");
            println!("HARNESS-ERROR {e}");
        }
        return 2;
    }
    exit
}

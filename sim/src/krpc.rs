//! Independent bencode + KRPC codec for stubs, probes and oracles.
//!
//! Deliberately does not use `btdht::message` or serde_bencode: the code under test is never its
//! own oracle.

use std::collections::BTreeMap;
use std::net::{IpAddr, Ipv4Addr, Ipv6Addr, SocketAddr};

#[derive(Clone, Debug, PartialEq, Eq)]
pub enum Val {
    Int(i64),
    Bytes(Vec<u8>),
    List(Vec<Val>),
    Dict(BTreeMap<Vec<u8>, Val>),
}

impl Val {
    pub fn bytes(b: &[u8]) -> Val {
        Val::Bytes(b.to_vec())
    }
    pub fn str(s: &str) -> Val {
        Val::Bytes(s.as_bytes().to_vec())
    }
    pub fn dict() -> Val {
        Val::Dict(BTreeMap::new())
    }
    pub fn set(&mut self, k: &str, v: Val) -> &mut Self {
        if let Val::Dict(d) = self {
            d.insert(k.as_bytes().to_vec(), v);
        }
        self
    }
    pub fn with(mut self, k: &str, v: Val) -> Self {
        self.set(k, v);
        self
    }
    pub fn get(&self, k: &str) -> Option<&Val> {
        match self {
            Val::Dict(d) => d.get(k.as_bytes()),
            _ => None,
        }
    }
    pub fn as_bytes(&self) -> Option<&[u8]> {
        match self {
            Val::Bytes(b) => Some(b),
            _ => None,
        }
    }
    pub fn as_int(&self) -> Option<i64> {
        match self {
            Val::Int(i) => Some(*i),
            _ => None,
        }
    }
    pub fn as_list(&self) -> Option<&[Val]> {
        match self {
            Val::List(l) => Some(l),
            _ => None,
        }
    }
    pub fn as_dict(&self) -> Option<&BTreeMap<Vec<u8>, Val>> {
        match self {
            Val::Dict(d) => Some(d),
            _ => None,
        }
    }

    pub fn encode(&self) -> Vec<u8> {
        let mut out = Vec::new();
        self.encode_into(&mut out);
        out
    }

    fn encode_into(&self, out: &mut Vec<u8>) {
        match self {
            Val::Int(i) => {
                out.push(b'i');
                out.extend_from_slice(i.to_string().as_bytes());
                out.push(b'e');
            }
            Val::Bytes(b) => {
                out.extend_from_slice(b.len().to_string().as_bytes());
                out.push(b':');
                out.extend_from_slice(b);
            }
            Val::List(l) => {
                out.push(b'l');
                for v in l {
                    v.encode_into(out);
                }
                out.push(b'e');
            }
            Val::Dict(d) => {
                out.push(b'd');
                for (k, v) in d {
                    out.extend_from_slice(k.len().to_string().as_bytes());
                    out.push(b':');
                    out.extend_from_slice(k);
                    v.encode_into(out);
                }
                out.push(b'e');
            }
        }
    }
}

/// Strict decoder: whole input must be one value; dictionary keys may come in any order (the
/// canonical-order question belongs to the codec property, which is not decided here).
pub fn decode(data: &[u8]) -> Option<Val> {
    let mut p = 0usize;
    let v = parse(data, &mut p, 0)?;
    if p == data.len() {
        Some(v)
    } else {
        None
    }
}

/// Lenient decoder for attribution oracles: at least as permissive as the decoder under test
/// (trailing bytes after the first value are ignored, as serde_bencode does), so that a datagram
/// the node may have accepted is never missing from an oracle's view.
pub fn decode_lenient(data: &[u8]) -> Option<Val> {
    let mut p = 0usize;
    parse(data, &mut p, 0)
}

fn parse(d: &[u8], p: &mut usize, depth: usize) -> Option<Val> {
    if depth > 64 {
        return None;
    }
    match *d.get(*p)? {
        b'i' => {
            *p += 1;
            let start = *p;
            while *d.get(*p)? != b'e' {
                *p += 1;
            }
            let s = std::str::from_utf8(&d[start..*p]).ok()?;
            *p += 1;
            Some(Val::Int(s.parse().ok()?))
        }
        b'l' => {
            *p += 1;
            let mut l = Vec::new();
            while *d.get(*p)? != b'e' {
                l.push(parse(d, p, depth + 1)?);
            }
            *p += 1;
            Some(Val::List(l))
        }
        b'd' => {
            *p += 1;
            let mut m = BTreeMap::new();
            while *d.get(*p)? != b'e' {
                let k = match parse(d, p, depth + 1)? {
                    Val::Bytes(b) => b,
                    _ => return None,
                };
                let v = parse(d, p, depth + 1)?;
                if m.insert(k, v).is_some() {
                    return None; // duplicate key
                }
            }
            *p += 1;
            Some(Val::Dict(m))
        }
        b'0'..=b'9' => {
            let start = *p;
            while *d.get(*p)? != b':' {
                if !d[*p].is_ascii_digit() {
                    return None;
                }
                *p += 1;
            }
            let n: usize = std::str::from_utf8(&d[start..*p]).ok()?.parse().ok()?;
            *p += 1;
            let end = p.checked_add(n)?;
            if end > d.len() {
                return None;
            }
            let b = d[*p..end].to_vec();
            *p = end;
            Some(Val::Bytes(b))
        }
        _ => None,
    }
}

// ---------------------------------------------------------------------------------------------
// KRPC view

#[derive(Clone, Debug, PartialEq, Eq)]
pub enum Kind {
    Query { q: String, a: Val },
    Response { r: Val },
    Error { code: i64, msg: Vec<u8> },
}

#[derive(Clone, Debug, PartialEq, Eq)]
pub struct Msg {
    pub t: Vec<u8>,
    pub kind: Kind,
}

impl Msg {
    /// Parse a datagram into a KRPC message (lenient about unknown keys).
    pub fn parse(data: &[u8]) -> Option<Msg> {
        Self::from_val(decode(data)?)
    }

    /// See `decode_lenient`.
    pub fn parse_lenient(data: &[u8]) -> Option<Msg> {
        Self::from_val(decode_lenient(data)?)
    }

    fn from_val(v: Val) -> Option<Msg> {
        let t = v.get("t")?.as_bytes()?.to_vec();
        let y = v.get("y")?.as_bytes()?;
        let kind = match y {
            b"q" => Kind::Query {
                q: String::from_utf8(v.get("q")?.as_bytes()?.to_vec()).ok()?,
                a: v.get("a")?.clone(),
            },
            b"r" => Kind::Response {
                r: v.get("r")?.clone(),
            },
            b"e" => {
                let l = v.get("e")?.as_list()?;
                Kind::Error {
                    code: l.first()?.as_int()?,
                    msg: l.get(1)?.as_bytes()?.to_vec(),
                }
            }
            _ => return None,
        };
        Some(Msg { t, kind })
    }

    pub fn encode(&self) -> Vec<u8> {
        self.to_val().encode()
    }

    pub fn to_val(&self) -> Val {
        let mut v = Val::dict();
        v.set("t", Val::Bytes(self.t.clone()));
        match &self.kind {
            Kind::Query { q, a } => {
                v.set("y", Val::str("q"));
                v.set("q", Val::str(q));
                v.set("a", a.clone());
            }
            Kind::Response { r } => {
                v.set("y", Val::str("r"));
                v.set("r", r.clone());
            }
            Kind::Error { code, msg } => {
                v.set("y", Val::str("e"));
                v.set("e", Val::List(vec![Val::Int(*code), Val::Bytes(msg.clone())]));
            }
        }
        v
    }

    pub fn is_query(&self) -> bool {
        matches!(self.kind, Kind::Query { .. })
    }
    pub fn is_response(&self) -> bool {
        matches!(self.kind, Kind::Response { .. })
    }
    pub fn is_error(&self) -> bool {
        matches!(self.kind, Kind::Error { .. })
    }
    pub fn qname(&self) -> Option<&str> {
        match &self.kind {
            Kind::Query { q, .. } => Some(q),
            _ => None,
        }
    }
    pub fn args(&self) -> Option<&Val> {
        match &self.kind {
            Kind::Query { a, .. } => Some(a),
            _ => None,
        }
    }
    pub fn resp(&self) -> Option<&Val> {
        match &self.kind {
            Kind::Response { r } => Some(r),
            _ => None,
        }
    }
    /// Short tag for order digests: "q:ping", "r", "e".
    pub fn tag(&self) -> String {
        match &self.kind {
            Kind::Query { q, .. } => format!("q:{q}"),
            Kind::Response { .. } => "r".into(),
            Kind::Error { code, .. } => format!("e:{code}"),
        }
    }
}

pub fn query(t: &[u8], q: &str, a: Val) -> Msg {
    Msg {
        t: t.to_vec(),
        kind: Kind::Query { q: q.into(), a },
    }
}

pub fn response(t: &[u8], r: Val) -> Msg {
    Msg {
        t: t.to_vec(),
        kind: Kind::Response { r },
    }
}

pub fn error(t: &[u8], code: i64, msg: &str) -> Msg {
    Msg {
        t: t.to_vec(),
        kind: Kind::Error {
            code,
            msg: msg.as_bytes().to_vec(),
        },
    }
}

// ---------------------------------------------------------------------------------------------
// compact encodings

pub fn compact_addr(a: &SocketAddr) -> Vec<u8> {
    let mut v = match a.ip() {
        IpAddr::V4(ip) => ip.octets().to_vec(),
        IpAddr::V6(ip) => ip.octets().to_vec(),
    };
    v.extend_from_slice(&a.port().to_be_bytes());
    v
}

pub fn parse_compact_addr(b: &[u8]) -> Option<SocketAddr> {
    match b.len() {
        6 => {
            let ip = Ipv4Addr::new(b[0], b[1], b[2], b[3]);
            Some(SocketAddr::new(ip.into(), u16::from_be_bytes([b[4], b[5]])))
        }
        18 => {
            let mut o = [0u8; 16];
            o.copy_from_slice(&b[..16]);
            Some(SocketAddr::new(
                Ipv6Addr::from(o).into(),
                u16::from_be_bytes([b[16], b[17]]),
            ))
        }
        _ => None,
    }
}

pub fn compact_nodes(nodes: &[([u8; 20], SocketAddr)]) -> Vec<u8> {
    let mut v = Vec::new();
    for (id, a) in nodes {
        v.extend_from_slice(id);
        v.extend_from_slice(&compact_addr(a));
    }
    v
}

/// Parse `nodes` (v6 = false, 26-byte entries) or `nodes6` (v6 = true, 38-byte entries).
pub fn parse_compact_nodes(b: &[u8], v6: bool) -> Option<Vec<([u8; 20], SocketAddr)>> {
    let w = if v6 { 38 } else { 26 };
    if b.len() % w != 0 {
        return None;
    }
    let mut out = Vec::new();
    for c in b.chunks(w) {
        let mut id = [0u8; 20];
        id.copy_from_slice(&c[..20]);
        out.push((id, parse_compact_addr(&c[20..])?));
    }
    Some(out)
}

pub fn values_list(addrs: &[SocketAddr]) -> Val {
    Val::List(addrs.iter().map(|a| Val::Bytes(compact_addr(a))).collect())
}

pub fn parse_values(v: &Val) -> Option<Vec<SocketAddr>> {
    v.as_list()?
        .iter()
        .map(|x| parse_compact_addr(x.as_bytes()?))
        .collect()
}

pub fn id20(v: &Val) -> Option<[u8; 20]> {
    let b = v.as_bytes()?;
    if b.len() != 20 {
        return None;
    }
    let mut a = [0u8; 20];
    a.copy_from_slice(b);
    Some(a)
}

pub fn xor(a: &[u8; 20], b: &[u8; 20]) -> [u8; 20] {
    let mut o = [0u8; 20];
    for i in 0..20 {
        o[i] = a[i] ^ b[i];
    }
    o
}

/// Number of leading bits shared by two ids (0..=160).
pub fn lcp(a: &[u8; 20], b: &[u8; 20]) -> usize {
    let x = xor(a, b);
    let mut n = 0;
    for byte in x {
        if byte == 0 {
            n += 8;
        } else {
            n += byte.leading_zeros() as usize;
            break;
        }
    }
    n
}

pub fn flip_bit(id: &[u8; 20], bit: usize) -> [u8; 20] {
    let mut o = *id;
    o[bit / 8] ^= 1 << (7 - (bit % 8));
    o
}

pub fn hex(b: &[u8]) -> String {
    let mut s = String::with_capacity(b.len() * 2);
    for x in b {
        s.push_str(&format!("{x:02x}"));
    }
    s
}

pub fn unhex(s: &str) -> Vec<u8> {
    (0..s.len() / 2)
        .map(|i| u8::from_str_radix(&s[2 * i..2 * i + 2], 16).unwrap_or(0))
        .collect()
}

/// "Well-formed query" in the sense the properties use it: a dictionary with `t` (byte string),
/// `y` = "q", `q` one of the four methods, and `a` carrying exactly the arguments that method
/// needs with the right types and lengths (unknown extra keys allowed, as long as they do not make
/// the arguments fit another method better).
pub fn well_formed_query(m: &Msg) -> bool {
    let (q, a) = match &m.kind {
        Kind::Query { q, a } => (q.as_str(), a),
        _ => return false,
    };
    let has20 = |k: &str| a.get(k).and_then(id20).is_some();
    if !has20("id") {
        return false;
    }
    match q {
        "ping" => a.get("target").is_none() && a.get("info_hash").is_none(),
        "find_node" => has20("target"),
        "get_peers" => has20("info_hash") && a.get("target").is_none() && a.get("token").is_none(),
        "announce_peer" => {
            has20("info_hash")
                && a.get("target").is_none()
                && a.get("token").and_then(|t| t.as_bytes()).is_some()
                && a.get("port")
                    .and_then(|p| p.as_int())
                    .map(|p| (0..=65535).contains(&p))
                    .unwrap_or(false)
        }
        _ => false,
    }
}

#[cfg(test)]
mod tests {
    use super::*;
    #[test]
    fn roundtrip() {
        let m = query(
            b"aa",
            "ping",
            Val::dict().with("id", Val::bytes(b"abcdefghij0123456789")),
        );
        let e = m.encode();
        assert_eq!(
            e,
            b"d1:ad2:id20:abcdefghij0123456789e1:q4:ping1:t2:aa1:y1:qe".to_vec()
        );
        assert_eq!(Msg::parse(&e).unwrap(), m);
    }
}

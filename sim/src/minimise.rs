//! Shrinks a failing scenario while the same violation class (property + clause) persists.

use crate::exec::{Op, Scenario};
use crate::log::Violation;
use crate::props::{Property, Tier};
use crate::sup::{evaluate, ReplayFile};
use std::time::{Duration, Instant};

fn fails(p: &dyn Property, sc: &Scenario, clause: &str) -> Option<(Violation, String, Vec<crate::net::ExplicitFault>)> {
    let (line, run) = evaluate(p, sc, 0, 0, false);
    let v = line.violations.into_iter().find(|v| v.clause == clause)?;
    Some((v, line.digest, run.map(|r| r.fired).unwrap_or_default()))
}

/// Regenerate the failing case, minimise it and package it as a replay file.
pub fn build_replay(p: &dyn Property, seed: u64, idx: u64, sub: u64, tier: Tier, v: &Violation) -> Option<ReplayFile> {
    if v.clause == "process_death" {
        return None;
    }
    let mut sc = p.generate(seed, idx, tier);
    if sub > 0 {
        // sweep variant: re-derive it from the (fault-free) base run
        let base = p.run(&sc).ok()?;
        let vars = p.sweep(&sc, &base, tier);
        sc = vars.get(sub as usize - 1)?.clone();
    }
    let original_steps = sc.steps.len();
    let (mut cur_v, mut cur_digest, fired) = fails(p, &sc, &v.clause)?;
    let original_faults = fired.len() + sc.net.explicit.as_ref().map(|e| e.len()).unwrap_or(0);
    let deadline = Instant::now() + Duration::from_secs(150);
    let mut budget = 700usize;
    let mut minimised = false;

    let attempt = |cand: Scenario, sc: &mut Scenario, cur_v: &mut Violation, cur_digest: &mut String, budget: &mut usize| -> bool {
        if *budget == 0 || Instant::now() > deadline {
            return false;
        }
        *budget -= 1;
        if let Some((v2, d2, _)) = fails(p, &cand, &v.clause) {
            *sc = cand;
            *cur_v = v2;
            *cur_digest = d2;
            true
        } else {
            false
        }
    };

    // 1. materialise random faults as an explicit list (must reproduce)
    if sc.net.explicit.is_none() && sc.net.any_random_faults() {
        let mut cand = sc.clone();
        cand.net.explicit = Some(fired.clone());
        cand.net.clear_random_faults();
        if attempt(cand, &mut sc, &mut cur_v, &mut cur_digest, &mut budget) {
            minimised = true;
        }
    }
    // 1b. cut the run right after the violation (makes every later re-execution cheaper)
    if cur_v.t > 0 && cur_v.t + 2_000 < sc.end_ms {
        let mut cand = sc.clone();
        cand.end_ms = cur_v.t + 2_000;
        if attempt(cand, &mut sc, &mut cur_v, &mut cur_digest, &mut budget) {
            minimised = true;
        }
    }
    // 2. drop explicit faults (halves first, then singles)
    if let Some(list) = sc.net.explicit.clone() {
        let mut list = list;
        let mut chunk = list.len().max(1);
        while chunk >= 1 && !list.is_empty() {
            let mut i = 0;
            let mut progressed = false;
            while i < list.len() {
                let mut l2 = list.clone();
                let end = (i + chunk).min(l2.len());
                l2.drain(i..end);
                let mut cand = sc.clone();
                cand.net.explicit = Some(l2.clone());
                if attempt(cand, &mut sc, &mut cur_v, &mut cur_digest, &mut budget) {
                    list = l2;
                    progressed = true;
                    minimised = true;
                } else {
                    i += chunk;
                }
            }
            if chunk == 1 && !progressed {
                break;
            }
            chunk = (chunk / 2).max(1);
            if chunk == 1 && !progressed && list.len() <= 1 {
                break;
            }
        }
    }
    // 3. outages / partitions
    for k in (0..sc.net.outages.len()).rev() {
        let mut cand = sc.clone();
        cand.net.outages.remove(k);
        if attempt(cand, &mut sc, &mut cur_v, &mut cur_digest, &mut budget) {
            minimised = true;
        }
    }
    for k in (0..sc.net.partitions.len()).rev() {
        let mut cand = sc.clone();
        cand.net.partitions.remove(k);
        if attempt(cand, &mut sc, &mut cur_v, &mut cur_digest, &mut budget) {
            minimised = true;
        }
    }
    // 4. workload steps -> Nop (indices stay stable, dependants keep their timing): first
    //    everything scheduled after the violation at once, then ddmin (halves .. singles)
    {
        let late: Vec<usize> = sc.steps.iter().enumerate().filter(|(_, s)| !matches!(s.op, Op::Nop) && matches!(s.when, crate::exec::When::At(t) if t > cur_v.t + 1_000)).map(|(i, _)| i).collect();
        if !late.is_empty() {
            let mut cand = sc.clone();
            for i in &late {
                cand.steps[*i].op = Op::Nop;
            }
            if attempt(cand, &mut sc, &mut cur_v, &mut cur_digest, &mut budget) {
                minimised = true;
            }
        }
        let mut live: Vec<usize> = sc.steps.iter().enumerate().filter(|(_, s)| !matches!(s.op, Op::Nop)).map(|(i, _)| i).collect();
        let mut chunk = (live.len() / 2).max(1);
        loop {
            let mut i = 0;
            let mut progressed = false;
            while i < live.len() && budget > 0 {
                let end = (i + chunk).min(live.len());
                let mut cand = sc.clone();
                for k in &live[i..end] {
                    cand.steps[*k].op = Op::Nop;
                }
                if attempt(cand, &mut sc, &mut cur_v, &mut cur_digest, &mut budget) {
                    live.drain(i..end);
                    progressed = true;
                    minimised = true;
                } else {
                    i = end;
                }
            }
            if chunk == 1 && !progressed {
                break;
            }
            if budget == 0 {
                break;
            }
            chunk = (chunk / 2).max(1);
        }
    }
    // 5. stubs (halves .. singles)
    {
        let mut chunk = (sc.world.stubs.len() / 2).max(1);
        loop {
            let mut i = 0;
            let mut progressed = false;
            while i < sc.world.stubs.len() && budget > 0 {
                let end = (i + chunk).min(sc.world.stubs.len());
                let mut cand = sc.clone();
                cand.world.stubs.drain(i..end);
                if attempt(cand, &mut sc, &mut cur_v, &mut cur_digest, &mut budget) {
                    progressed = true;
                    minimised = true;
                } else {
                    i = end;
                }
            }
            if (chunk == 1 && !progressed) || budget == 0 {
                break;
            }
            chunk = (chunk / 2).max(1);
        }
    }
    // 6. latencies
    for lat in [0u64, 1, 10] {
        if sc.net.lat_max_ms > lat {
            let mut cand = sc.clone();
            cand.net.lat_max_ms = lat;
            cand.net.lat_min_ms = cand.net.lat_min_ms.min(lat);
            if attempt(cand, &mut sc, &mut cur_v, &mut cur_digest, &mut budget) {
                minimised = true;
                break;
            }
        }
    }
    // 7. trailing Nop steps nobody depends on
    loop {
        let n = sc.steps.len();
        if n == 0 || !matches!(sc.steps[n - 1].op, Op::Nop) {
            break;
        }
        let depended = sc.steps.iter().any(|s| matches!(s.when, crate::exec::When::After { step, .. } if step == n - 1));
        if depended {
            break;
        }
        let mut cand = sc.clone();
        cand.steps.pop();
        if !attempt(cand, &mut sc, &mut cur_v, &mut cur_digest, &mut budget) {
            break;
        }
    }


    // 8. virtual time: cut the run right after the violation, then collapse idle gaps between
    //    workload instants towards the nearest protocol constant (everything scheduled later --
    //    steps, outages, partitions, fault window -- moves with the gap)
    let shift = |sc: &Scenario, from: u64, by: u64| -> Scenario {
        let mut c = sc.clone();
        let mv = |t: &mut u64| {
            if *t >= from {
                *t -= by;
            }
        };
        for st in c.steps.iter_mut() {
            if let crate::exec::When::At(t) = &mut st.when {
                mv(t);
            }
        }
        for o in c.net.outages.iter_mut() {
            mv(&mut o.from_ms);
            mv(&mut o.to_ms);
        }
        for o in c.net.partitions.iter_mut() {
            mv(&mut o.from_ms);
            mv(&mut o.to_ms);
        }
        if c.net.fault_to_ms > 0 {
            mv(&mut c.net.fault_from_ms);
            mv(&mut c.net.fault_to_ms);
        }
        mv(&mut c.end_ms);
        c
    };
    const KEEP: [u64; 7] = [86_400_000, 1_800_000, 1_200_000, 900_000, 600_000, 60_000, 10_000];
    for _round in 0..12 {
        let mut times: Vec<u64> = sc.steps.iter().filter(|s| !matches!(s.op, Op::Nop)).filter_map(|s| match s.when {
            crate::exec::When::At(t) => Some(t),
            _ => None,
        }).collect();
        times.sort();
        times.dedup();
        let mut progressed = false;
        for w in (1..times.len()).rev() {
            let gap = times[w] - times[w - 1];
            for keep in KEEP {
                if gap > keep + keep / 10 {
                    let cand = shift(&sc, times[w], gap - keep);
                    if attempt(cand, &mut sc, &mut cur_v, &mut cur_digest, &mut budget) {
                        minimised = true;
                        progressed = true;
                        break;
                    }
                }
            }
            if progressed {
                break;
            }
        }
        if !progressed {
            break;
        }
    }

    Some(ReplayFile {
        property: p.id().to_string(),
        seed,
        idx,
        sub,
        tier: tier.name().to_string(),
        violation: cur_v,
        digest: cur_digest,
        minimised,
        original_steps,
        original_faults,
        scenario: sc,
    })
}

//! Entropy seam.
//!
//! The binary defines the C symbol `getrandom`. std (HashMap `RandomState` keys) resolves that
//! symbol dynamically, and the vendored `getrandom` crate (used by `rand`, hence by btdht for node
//! ids, token secrets and transaction-id shuffles) calls it as well. While a simulator seed is
//! installed on the calling thread the bytes come from a splitmix64 stream; otherwise from the
//! kernel, so the supervisor and any non-simulation thread behave normally.

use std::cell::Cell;

thread_local! {
    static STREAM: Cell<Option<u64>> = const { Cell::new(None) };
    static DRAWN: Cell<u64> = const { Cell::new(0) };
}

pub fn splitmix(state: &mut u64) -> u64 {
    *state = state.wrapping_add(0x9E37_79B9_7F4A_7C15);
    let mut z = *state;
    z = (z ^ (z >> 30)).wrapping_mul(0xBF58_476D_1CE4_E5B9);
    z = (z ^ (z >> 27)).wrapping_mul(0x94D0_49BB_1331_11EB);
    z ^ (z >> 31)
}

/// Install a deterministic entropy stream on the current thread.
pub fn install(seed: u64) {
    STREAM.with(|s| s.set(Some(seed ^ 0xA5A5_5A5A_DEAD_BEEF)));
    DRAWN.with(|d| d.set(0));
}

#[allow(dead_code)]
pub fn uninstall() {
    STREAM.with(|s| s.set(None));
}

/// Number of entropy bytes handed out on this thread since `install`.
pub fn drawn() -> u64 {
    DRAWN.with(|d| d.get())
}

fn fill(buf: &mut [u8]) -> bool {
    STREAM
        .try_with(|s| {
            if let Some(mut st) = s.get() {
                for chunk in buf.chunks_mut(8) {
                    let v = splitmix(&mut st).to_le_bytes();
                    chunk.copy_from_slice(&v[..chunk.len()]);
                }
                s.set(Some(st));
                let _ = DRAWN.try_with(|d| d.set(d.get() + buf.len() as u64));
                true
            } else {
                false
            }
        })
        .unwrap_or(false)
}

/// Interposed libc symbol. See module docs.
///
/// # Safety
/// `buf` must be valid for `len` bytes, as for getrandom(2).
#[no_mangle]
pub unsafe extern "C" fn getrandom(
    buf: *mut libc::c_void,
    len: libc::size_t,
    flags: libc::c_uint,
) -> libc::ssize_t {
    if len == 0 {
        return 0;
    }
    let slice = std::slice::from_raw_parts_mut(buf as *mut u8, len);
    if fill(slice) {
        len as libc::ssize_t
    } else {
        libc::syscall(libc::SYS_getrandom, buf, len, flags) as libc::ssize_t
    }
}

/// Small deterministic PRNG for the simulator's own choices (generators, fault plans).
#[derive(Clone, Debug)]
pub struct Rng(pub u64);

impl Rng {
    pub fn new(seed: u64) -> Self {
        let mut s = seed ^ 0x1234_5678_9ABC_DEF0;
        splitmix(&mut s);
        Rng(s)
    }
    pub fn next(&mut self) -> u64 {
        splitmix(&mut self.0)
    }
    /// uniform in [0, n)
    pub fn below(&mut self, n: u64) -> u64 {
        if n == 0 {
            0
        } else {
            self.next() % n
        }
    }
    /// uniform in [lo, hi]
    pub fn range(&mut self, lo: u64, hi: u64) -> u64 {
        lo + self.below(hi - lo + 1)
    }
    pub fn chance(&mut self, num: u64, den: u64) -> bool {
        self.below(den) < num
    }
    pub fn pick<'a, T>(&mut self, v: &'a [T]) -> &'a T {
        &v[self.below(v.len() as u64) as usize]
    }
    pub fn bytes(&mut self, n: usize) -> Vec<u8> {
        let mut v = Vec::with_capacity(n);
        while v.len() < n {
            let x = self.next().to_le_bytes();
            let k = (n - v.len()).min(8);
            v.extend_from_slice(&x[..k]);
        }
        v
    }
    /// between lo and hi random bytes
    pub fn bytes_in(&mut self, lo: u64, hi: u64) -> Vec<u8> {
        let n = self.range(lo, hi) as usize;
        self.bytes(n)
    }
    pub fn id20(&mut self) -> [u8; 20] {
        let b = self.bytes(20);
        let mut a = [0u8; 20];
        a.copy_from_slice(&b);
        a
    }
    pub fn fork(&mut self) -> Rng {
        Rng::new(self.next())
    }
    pub fn shuffle<T>(&mut self, v: &mut [T]) {
        for i in (1..v.len()).rev() {
            let j = self.below(i as u64 + 1) as usize;
            v.swap(i, j);
        }
    }
}

/// Stateless hash used for per-datagram decisions: a pure function of its inputs.
pub fn hash_words(words: &[u64]) -> u64 {
    let mut h: u64 = 0xcbf2_9ce4_8422_2325;
    for w in words {
        for b in w.to_le_bytes() {
            h ^= b as u64;
            h = h.wrapping_mul(0x0000_0100_0000_01B3);
        }
    }
    let mut s = h;
    splitmix(&mut s)
}

/// FNV-1a 64 incremental digest.
#[derive(Clone, Copy, Debug)]
pub struct Fnv(pub u64);

impl Default for Fnv {
    fn default() -> Self {
        Fnv(0xcbf2_9ce4_8422_2325)
    }
}

impl Fnv {
    pub fn bytes(&mut self, b: &[u8]) {
        for x in b {
            self.0 ^= *x as u64;
            self.0 = self.0.wrapping_mul(0x0000_0100_0000_01B3);
        }
    }
    pub fn u64(&mut self, v: u64) {
        self.bytes(&v.to_le_bytes());
    }
    pub fn str(&mut self, s: &str) {
        self.u64(s.len() as u64);
        self.bytes(s.as_bytes());
    }
}

/// Hash containers with a fixed hasher: the simulator's own maps must not consume std's
/// per-thread `RandomState` counter, or they would perturb the iteration order of the hash maps
/// inside the code under test.
pub type DMap<K, V> = std::collections::HashMap<K, V, std::hash::BuildHasherDefault<std::collections::hash_map::DefaultHasher>>;
pub type DSet<K> = std::collections::HashSet<K, std::hash::BuildHasherDefault<std::collections::hash_map::DefaultHasher>>;

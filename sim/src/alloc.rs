//! Counting global allocator: records, per thread, the largest single allocation request made
//! while monitoring is switched on (C14: memory out of proportion to a <= 1500-byte datagram).

use std::alloc::{GlobalAlloc, Layout, System};
use std::cell::Cell;

pub struct Counting;

thread_local! {
    static ON: Cell<bool> = const { Cell::new(false) };
    static PEAK: Cell<usize> = const { Cell::new(0) };
}

fn note(size: usize) {
    let _ = ON.try_with(|on| {
        if on.get() {
            let _ = PEAK.try_with(|p| {
                if size > p.get() {
                    p.set(size);
                }
            });
        }
    });
}

unsafe impl GlobalAlloc for Counting {
    unsafe fn alloc(&self, l: Layout) -> *mut u8 {
        note(l.size());
        System.alloc(l)
    }
    unsafe fn dealloc(&self, p: *mut u8, l: Layout) {
        System.dealloc(p, l)
    }
    unsafe fn alloc_zeroed(&self, l: Layout) -> *mut u8 {
        note(l.size());
        System.alloc_zeroed(l)
    }
    unsafe fn realloc(&self, p: *mut u8, l: Layout, new_size: usize) -> *mut u8 {
        note(new_size);
        System.realloc(p, l, new_size)
    }
}

/// Start monitoring on this thread and reset the peak.
pub fn monitor(on: bool) {
    ON.with(|o| o.set(on));
    if on {
        PEAK.with(|p| p.set(0));
    }
}

pub fn reset_peak() {
    PEAK.with(|p| p.set(0));
}

pub fn peak() -> usize {
    PEAK.with(|p| p.get())
}

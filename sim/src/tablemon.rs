//! Routing-table dumps and the shape invariant (C08), through the guarded hooks H2/H3.

use crate::krpc::{hex, lcp};
use crate::log::{Ev, Slot, TableDump};
use crate::net::Net;
use btdht::verif::{NodeStatus, RoutingTable};
use std::collections::BTreeSet;
use std::net::SocketAddr;

pub fn status_code(s: NodeStatus) -> u8 {
    match s {
        NodeStatus::Bad => 0,
        NodeStatus::Questionable => 1,
        NodeStatus::Good => 2,
    }
}

pub fn dump_table(t: &RoutingTable) -> TableDump {
    let node_id: [u8; 20] = t.node_id().into();
    let mut routers: Vec<SocketAddr> = t.routers.iter().copied().collect();
    routers.sort();
    let buckets = t
        .buckets()
        .map(|b| {
            b.iter()
                .map(|n| Slot {
                    id: n.id().into(),
                    addr: n.addr(),
                    status: status_code(n.status()),
                })
                .collect()
        })
        .collect();
    TableDump { node_id, routers, buckets }
}

/// Dump the table of the node bound to `addr` (None if unknown or the lock is held).
pub fn dump(addr: &SocketAddr) -> Option<TableDump> {
    let p = btdht::verif::probe(addr)?;
    let t = p.table?;
    let g = t.try_lock().ok()?;
    Some(dump_table(&g))
}

/// The "shape" clauses of C08 on one dump.
pub fn shape_violations(d: &TableDump) -> Vec<(String, String)> {
    let mut v = Vec::new();
    let nb = d.buckets.len();
    let mut seen = BTreeSet::new();
    if nb == 0 || nb > 160 {
        v.push(("bucket_count".to_string(), format!("{nb} buckets")));
    }
    for (i, b) in d.buckets.iter().enumerate() {
        if b.len() > 8 {
            v.push(("bucket_size".to_string(), format!("bucket {i} has {} slots", b.len())));
        }
        for s in b.iter().filter(|s| s.status > 0) {
            if s.id == d.node_id {
                v.push(("own_id".to_string(), format!("own id listed at {} in bucket {i}", s.addr)));
                continue;
            }
            if d.routers.contains(&s.addr) {
                v.push(("router".to_string(), format!("router address {} listed in bucket {i}", s.addr)));
            }
            if !seen.insert((s.id, s.addr)) {
                v.push(("dup".to_string(), format!("({}, {}) listed twice", hex(&s.id), s.addr)));
            }
            let want = lcp(&d.node_id, &s.id).min(nb - 1);
            if want != i {
                v.push((
                    "placement".to_string(),
                    format!("node {} in bucket {i}, shares {} bits, belongs in {want} of {nb}", hex(&s.id), lcp(&d.node_id, &s.id)),
                ));
            }
        }
    }
    v
}

/// Evaluate the shape invariant on the live table of `addr` and record violations in the log.
pub fn check_shape(net: &Net, addr: &SocketAddr) {
    let d = match dump(addr) {
        Some(d) => d,
        None => {
            net.lock().bump("shape_check_skipped");
            return;
        }
    };
    let viol = shape_violations(&d);
    let mut n = net.lock();
    n.bump("shape_checks");
    let t = n.now();
    for (clause, detail) in viol {
        // keep the log small: at most a handful per run
        if n.stats.get("shape_violations").copied().unwrap_or(0) < 5 {
            n.push(Ev::Invariant { t, node: *addr, clause: format!("shape_{clause}"), detail });
        }
        n.bump("shape_violations");
    }
}

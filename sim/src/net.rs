//! Simulated datagram network with fault injection. Everything a node sends or receives passes
//! through here; every decision is a pure function of (NetCfg, src, dst, per-link ordinal).

use crate::entropy::{hash_words, Fnv};
use crate::log::{ApiEv, EpKind, Ev, Ms, SendOutcome};
use async_trait::async_trait;
use serde::{Deserialize, Serialize};
use std::cmp::Reverse;
use crate::entropy::{DMap, DSet};
use std::collections::{BTreeMap, BinaryHeap, VecDeque};
use std::io;
use std::net::SocketAddr;
use std::sync::{Arc, Mutex};
use std::task::{Poll, Waker};
use std::time::Duration;

pub const PPM: u64 = 1_000_000;

#[derive(Clone, Debug, Serialize, Deserialize, PartialEq, Eq)]
pub enum OutageMode {
    /// send_to returns io::Error with this raw os error (ENETUNREACH=101, EPERM=1, EAGAIN=11)
    SendErr(i32),
    /// send_to succeeds, datagram vanishes; incoming datagrams vanish too
    BlackHole,
}

#[derive(Clone, Debug, Serialize, Deserialize, PartialEq, Eq)]
pub struct Outage {
    pub addr: SocketAddr,
    pub from_ms: Ms,
    pub to_ms: Ms,
    pub mode: OutageMode,
}

#[derive(Clone, Debug, Serialize, Deserialize, PartialEq, Eq)]
pub struct Partition {
    pub side: Vec<SocketAddr>,
    pub from_ms: Ms,
    pub to_ms: Ms,
}

#[derive(Clone, Debug, Serialize, Deserialize, PartialEq, Eq)]
pub enum FaultKind {
    Drop,
    Dup { lat: Ms },
    Delay { ms: Ms },
    Corrupt { mode: u8, a: u32, b: u32 },
    SendErr { code: i32 },
    Stall { ms: Ms },
}

#[derive(Clone, Debug, Serialize, Deserialize, PartialEq, Eq)]
pub struct ExplicitFault {
    pub src: SocketAddr,
    pub dst: SocketAddr,
    pub ord: u64,
    pub kind: FaultKind,
}

#[derive(Clone, Debug, Serialize, Deserialize, PartialEq, Eq, Default)]
pub struct NetCfg {
    pub seed: u64,
    pub lat_min_ms: Ms,
    pub lat_max_ms: Ms,
    pub drop_ppm: u32,
    pub dup_ppm: u32,
    pub corrupt_ppm: u32,
    /// extra delay of `late_ms` (uniform in [late_ms/2, late_ms]) on top of the latency
    pub late_ppm: u32,
    pub late_ms: Ms,
    /// real nodes only: send_to returns an error
    pub send_err_ppm: u32,
    /// real nodes only: send_to awaits up to stall_max_ms before sending
    pub stall_ppm: u32,
    pub stall_max_ms: Ms,
    /// per-datagram faults apply only inside [fault_from_ms, fault_to_ms) (0,0 = always)
    pub fault_from_ms: Ms,
    pub fault_to_ms: Ms,
    pub outages: Vec<Outage>,
    pub partitions: Vec<Partition>,
    /// When Some: the random per-datagram faults above are off and exactly these fire.
    pub explicit: Option<Vec<ExplicitFault>>,
    /// run the routing-table shape invariant at every scheduling point the simulator owns
    pub check_table_shape: bool,
    /// scheduling jitter: a real node's send_to / recv_from call yields to the scheduler once (no
    /// virtual time passes) before doing its work, so the node's other task, due timers, queued
    /// API commands and deliveries of the same instant get to run in between. A pure function of
    /// (seed, link, ordinal) like every other per-datagram decision; stays on in explicit replays.
    #[serde(default)]
    pub yield_ppm: u32,
    /// a real node's recv_from call fails with ECONNRESET instead of waiting for a datagram (nothing
    /// is lost: queued datagrams stay queued). Stateless like yield_ppm; stays on in explicit replays.
    #[serde(default)]
    pub recv_err_ppm: u32,
    /// slow worker task: a send_to made by a task of the node that never calls recv_from (i.e. not
    /// the event loop: the bootstrap worker) returns late - the datagram has left, the caller gets
    /// the CPU back only up to worker_stall_max_ms later. Stateless like yield_ppm.
    /// a real node's send of a RESPONSE or ERROR datagram (a reply to somebody's query) fails with
    /// ENETUNREACH; its own queries are not affected. Stateless like yield_ppm.
    #[serde(default)]
    pub reply_send_err_ppm: u32,
    #[serde(default)]
    pub worker_stall_ppm: u32,
    #[serde(default)]
    pub worker_stall_max_ms: Ms,
}

impl NetCfg {
    pub fn any_random_faults(&self) -> bool {
        self.drop_ppm > 0
            || self.dup_ppm > 0
            || self.corrupt_ppm > 0
            || self.late_ppm > 0
            || self.send_err_ppm > 0
            || self.stall_ppm > 0
    }
    pub fn clear_random_faults(&mut self) {
        self.drop_ppm = 0;
        self.dup_ppm = 0;
        self.corrupt_ppm = 0;
        self.late_ppm = 0;
        self.send_err_ppm = 0;
        self.stall_ppm = 0;
    }
}

/// Scripted remote party (stub world). One object serves every stub address.
pub trait Stub: Send {
    fn handles(&self, addr: &SocketAddr) -> bool;
    fn on_datagram(
        &mut self,
        now: Ms,
        to: SocketAddr,
        from: SocketAddr,
        data: &[u8],
        out: &mut Vec<Outgoing>,
    );
}

pub struct Outgoing {
    pub from: SocketAddr,
    pub to: SocketAddr,
    pub bytes: Vec<u8>,
    pub extra_delay_ms: Ms,
}

struct Mailbox {
    q: VecDeque<(Vec<u8>, SocketAddr, u64, bool)>,
    wakers: Vec<Waker>,
    kind: EpKind,
    recv_errs: u32,
    recv_calls: u64,
    /// tokio task ids that have called recv_from on this socket (the node's event loop)
    recv_tasks: Vec<String>,
}

struct InFlight {
    seq: u64,
    copy: u8,
    src: SocketAddr,
    dst: SocketAddr,
    bytes: Vec<u8>,
    corrupted: bool,
}

pub struct NetInner {
    pub cfg: NetCfg,
    epoch: tokio::time::Instant,
    next_seq: u64,
    heap: BinaryHeap<Reverse<(Ms, u64)>>,
    inflight: DMap<u64, InFlight>,
    next_key: u64,
    mailboxes: DMap<SocketAddr, Mailbox>,
    stub: Option<Box<dyn Stub>>,
    link_ord: DMap<(SocketAddr, SocketAddr), u64>,
    explicit: Option<DMap<(SocketAddr, SocketAddr, u64), Vec<FaultKind>>>,
    pub dead: DSet<SocketAddr>,
    pub log: Vec<Ev>,
    pub digest: Fnv,
    pub order_digest: Fnv,
    pub stats: BTreeMap<String, u64>,
    pub fired: Vec<ExplicitFault>,
    delivery_waker: Option<Waker>,
    pub max_events: usize,
    pub overflow: bool,
}

#[derive(Clone)]
pub struct Net(pub Arc<Mutex<NetInner>>);

#[derive(Clone, Debug, Default)]
struct Decision {
    drop: bool,
    lat: Ms,
    dup: Option<Ms>,
    corrupt: Option<(u8, u32, u32)>,
}

impl NetInner {
    pub fn now(&self) -> Ms {
        (tokio::time::Instant::now() - self.epoch).as_millis() as Ms
    }

    pub fn bump(&mut self, k: &str) {
        *self.stats.entry(k.to_string()).or_insert(0) += 1;
    }

    pub fn bump_by(&mut self, k: &str, n: u64) {
        *self.stats.entry(k.to_string()).or_insert(0) += n;
    }

    pub fn push(&mut self, ev: Ev) {
        if self.log.len() >= self.max_events {
            self.overflow = true;
            return;
        }
        ev.feed(&mut self.digest);
        ev.feed_order(&mut self.order_digest);
        self.log.push(ev);
    }

    fn in_fault_window(&self, now: Ms) -> bool {
        (self.cfg.fault_from_ms == 0 && self.cfg.fault_to_ms == 0)
            || (now >= self.cfg.fault_from_ms && now < self.cfg.fault_to_ms)
    }

    fn addr_word(a: &SocketAddr) -> u64 {
        let mut h = Fnv::default();
        h.str(&a.to_string());
        h.0
    }

    fn roll(&self, src: &SocketAddr, dst: &SocketAddr, ord: u64, salt: u64) -> u64 {
        hash_words(&[
            self.cfg.seed,
            Self::addr_word(src),
            Self::addr_word(dst),
            ord,
            salt,
        ])
    }

    fn base_latency(&self, src: &SocketAddr, dst: &SocketAddr, ord: u64) -> Ms {
        let lo = self.cfg.lat_min_ms;
        let hi = self.cfg.lat_max_ms.max(lo);
        lo + self.roll(src, dst, ord, 1) % (hi - lo + 1)
    }

    fn explicit_for(&self, src: &SocketAddr, dst: &SocketAddr, ord: u64) -> Option<&Vec<FaultKind>> {
        self.explicit.as_ref().and_then(|m| m.get(&(*src, *dst, ord)))
    }

    fn decide(&mut self, now: Ms, src: &SocketAddr, dst: &SocketAddr, ord: u64) -> Decision {
        let mut d = Decision {
            lat: self.base_latency(src, dst, ord),
            ..Default::default()
        };
        if self.explicit.is_some() {
            if let Some(list) = self.explicit_for(src, dst, ord).cloned() {
                for k in list {
                    match k {
                        FaultKind::Drop => d.drop = true,
                        FaultKind::Dup { lat } => d.dup = Some(lat),
                        FaultKind::Delay { ms } => d.lat += ms,
                        FaultKind::Corrupt { mode, a, b } => d.corrupt = Some((mode, a, b)),
                        _ => {}
                    }
                }
            }
            return d;
        }
        if !self.in_fault_window(now) {
            return d;
        }
        let c = &self.cfg;
        let mut fired = Vec::new();
        if c.drop_ppm > 0 && self.roll(src, dst, ord, 2) % PPM < c.drop_ppm as u64 {
            d.drop = true;
            fired.push(FaultKind::Drop);
        }
        if c.late_ppm > 0 && self.roll(src, dst, ord, 3) % PPM < c.late_ppm as u64 {
            let extra = c.late_ms / 2 + self.roll(src, dst, ord, 4) % (c.late_ms / 2 + 1);
            d.lat += extra;
            fired.push(FaultKind::Delay { ms: extra });
        }
        if c.dup_ppm > 0 && self.roll(src, dst, ord, 5) % PPM < c.dup_ppm as u64 {
            let hi = c.lat_max_ms.max(c.lat_min_ms) + c.late_ms / 4;
            let lat = c.lat_min_ms + self.roll(src, dst, ord, 6) % (hi - c.lat_min_ms + 1);
            d.dup = Some(lat);
            fired.push(FaultKind::Dup { lat });
        }
        if c.corrupt_ppm > 0 && self.roll(src, dst, ord, 7) % PPM < c.corrupt_ppm as u64 {
            let r = self.roll(src, dst, ord, 8);
            let spec = ((r % 7) as u8, (r >> 8) as u32, (r >> 40) as u32);
            d.corrupt = Some(spec);
            fired.push(FaultKind::Corrupt { mode: spec.0, a: spec.1, b: spec.2 });
        }
        for kind in fired {
            self.fired.push(ExplicitFault { src: *src, dst: *dst, ord, kind });
        }
        d
    }

    fn kind_of(&self, a: &SocketAddr) -> EpKind {
        if let Some(m) = self.mailboxes.get(a) {
            m.kind
        } else if self.stub.as_ref().map(|s| s.handles(a)).unwrap_or(false) {
            EpKind::Stub
        } else {
            EpKind::Nobody
        }
    }

    fn partitioned(&self, now: Ms, src: &SocketAddr, dst: &SocketAddr) -> bool {
        self.cfg.partitions.iter().any(|p| {
            now >= p.from_ms && now < p.to_ms && (p.side.contains(src) != p.side.contains(dst))
        })
    }

    fn outage(&self, now: Ms, a: &SocketAddr) -> Option<&OutageMode> {
        self.cfg
            .outages
            .iter()
            .find(|o| &o.addr == a && now >= o.from_ms && now < o.to_ms)
            .map(|o| &o.mode)
    }

    /// Hand a datagram to the network. Returns Err only for real-node send errors.
    pub fn send(
        &mut self,
        src: SocketAddr,
        dst: SocketAddr,
        bytes: Vec<u8>,
        extra_delay: Ms,
    ) -> io::Result<()> {
        let now = self.now();
        let src_kind = self.kind_of(&src);
        let ord = {
            let e = self.link_ord.entry((src, dst)).or_insert(0);
            let o = *e;
            *e += 1;
            o
        };
        let seq = self.next_seq;
        self.next_seq += 1;
        self.bump(match src_kind {
            EpKind::Real => "sent_real",
            EpKind::Probe => "sent_probe",
            EpKind::Stub => "sent_stub",
            EpKind::Nobody => "sent_raw",
        });

        let mut outcome = None;
        let mut result = Ok(());

        if src_kind == EpKind::Real {
            // explicit / random send error
            let mut err_code = None;
            if self.explicit.is_some() {
                if let Some(l) = self.explicit_for(&src, &dst, ord) {
                    for k in l {
                        if let FaultKind::SendErr { code } = k {
                            err_code = Some(*code);
                        }
                    }
                }
            } else if self.cfg.send_err_ppm > 0
                && self.in_fault_window(now)
                && self.roll(&src, &dst, ord, 9) % PPM < self.cfg.send_err_ppm as u64
            {
                let code = [101, 1, 11][(self.roll(&src, &dst, ord, 10) % 3) as usize];
                err_code = Some(code);
                self.fired.push(ExplicitFault { src, dst, ord, kind: FaultKind::SendErr { code } });
            }
            if err_code.is_none()
                && self.cfg.reply_send_err_ppm > 0
                && self.roll(&src, &dst, ord, 26) % PPM < self.cfg.reply_send_err_ppm as u64
                && crate::krpc::Msg::parse(&bytes).map(|m| !m.is_query()).unwrap_or(false)
            {
                err_code = Some(101);
                self.bump("fault_reply_send_err");
            }
            if let Some(mode) = self.outage(now, &src).cloned() {
                match mode {
                    OutageMode::SendErr(code) => {
                        err_code = Some(code);
                        self.bump("fault_outage_send_err");
                    }
                    OutageMode::BlackHole => {
                        outcome = Some(SendOutcome::BlackHoled);
                        self.bump("fault_outage_blackhole");
                    }
                }
            }
            if let Some(code) = err_code {
                outcome = Some(SendOutcome::SendErr(code));
                result = Err(io::Error::from_raw_os_error(code));
                self.bump("fault_send_err");
            }
        }
        if outcome.is_none() && self.partitioned(now, &src, &dst) {
            outcome = Some(SendOutcome::Partitioned);
            self.bump("fault_partitioned");
        }
        if outcome.is_none() {
            if let Some(OutageMode::BlackHole) = self.outage(now, &dst) {
                outcome = Some(SendOutcome::BlackHoled);
                self.bump("fault_outage_blackhole");
            }
        }
        if outcome.is_none() {
            let d = self.decide(now, &src, &dst, ord);
            if d.drop {
                outcome = Some(SendOutcome::Dropped);
                self.bump("fault_drop");
            } else {
                let lat = d.lat + extra_delay;
                let (payload, corrupted) = match d.corrupt {
                    Some(spec) => {
                        self.bump("fault_corrupt");
                        (corrupt(&bytes, spec), true)
                    }
                    None => (bytes.clone(), false),
                };
                if d.lat > self.cfg.lat_max_ms.max(self.cfg.lat_min_ms) {
                    self.bump("fault_delay");
                }
                self.enqueue(now + lat, seq, 0, src, dst, payload.clone(), corrupted);
                if let Some(dl) = d.dup {
                    self.bump("fault_dup");
                    self.enqueue(now + dl + extra_delay, seq, 1, src, dst, payload, corrupted);
                }
                outcome = Some(SendOutcome::Queued { lat, dup: d.dup, corrupt: corrupted });
            }
        }
        self.push(Ev::Send {
            t: now,
            seq,
            src,
            dst,
            ord,
            src_kind,
            bytes,
            outcome: outcome.unwrap(),
        });
        result
    }

    fn enqueue(
        &mut self,
        at: Ms,
        seq: u64,
        copy: u8,
        src: SocketAddr,
        dst: SocketAddr,
        bytes: Vec<u8>,
        corrupted: bool,
    ) {
        let key = self.next_key;
        self.next_key += 1;
        self.inflight.insert(key, InFlight { seq, copy, src, dst, bytes, corrupted });
        self.heap.push(Reverse((at, key)));
        if let Some(w) = self.delivery_waker.take() {
            w.wake();
        }
    }

    /// Deliver every datagram due at or before `now`. Returns real-node addresses that received
    /// something (for the invariant monitor).
    fn deliver_due(&mut self) -> Vec<SocketAddr> {
        let now = self.now();
        let mut touched = Vec::new();
        while let Some(Reverse((at, key))) = self.heap.peek().copied() {
            if at > now {
                break;
            }
            self.heap.pop();
            let f = match self.inflight.remove(&key) {
                Some(f) => f,
                None => continue,
            };
            // reordering measure: a copy overtaking an earlier one on the same link is counted
            let mut dst_kind = self.kind_of(&f.dst);
            if self.dead.contains(&f.dst) {
                dst_kind = EpKind::Nobody;
            }
            if let Some(OutageMode::BlackHole) = self.outage(now, &f.dst) {
                dst_kind = EpKind::Nobody;
                self.bump("fault_outage_blackhole_rx");
            }
            self.push(Ev::Deliver {
                t: now,
                seq: f.seq,
                copy: f.copy,
                src: f.src,
                dst: f.dst,
                dst_kind,
                bytes: f.bytes.clone(),
                corrupted: f.corrupted,
            });
            match dst_kind {
                EpKind::Real | EpKind::Probe => {
                    if dst_kind == EpKind::Real {
                        touched.push(f.dst);
                        self.bump("delivered_real");
                    }
                    if let Some(m) = self.mailboxes.get_mut(&f.dst) {
                        m.q.push_back((f.bytes, f.src, f.seq, f.corrupted));
                        for w in m.wakers.drain(..) {
                            w.wake();
                        }
                    }
                }
                EpKind::Stub => {
                    self.bump("delivered_stub");
                    if let Some(mut s) = self.stub.take() {
                        let mut out = Vec::new();
                        s.on_datagram(now, f.dst, f.src, &f.bytes, &mut out);
                        self.stub = Some(s);
                        for o in out {
                            let _ = self.send(o.from, o.to, o.bytes, o.extra_delay_ms);
                        }
                    }
                }
                EpKind::Nobody => self.bump("delivered_nobody"),
            }
        }
        touched
    }
}

/// Structure-aware corruption of a datagram (also used by the fuzzing stub).
pub fn corrupt(bytes: &[u8], spec: (u8, u32, u32)) -> Vec<u8> {
    let (mode, a, b) = spec;
    let mut v = bytes.to_vec();
    if v.is_empty() {
        return vec![b'd', b'e'];
    }
    let n = v.len();
    match mode {
        0 => {
            // flip one bit
            let pos = (a as usize) % n;
            v[pos] ^= 1 << (b % 8);
        }
        1 => {
            // truncate
            v.truncate((a as usize) % n);
        }
        2 => {
            // append junk
            for i in 0..(1 + b % 16) {
                v.push((a.wrapping_mul(31).wrapping_add(i)) as u8);
            }
        }
        3 => {
            // replace a byte
            let pos = (a as usize) % n;
            v[pos] = b as u8;
        }
        4 => {
            // grow a length prefix / integer: insert digits before some digit
            let digits: Vec<usize> = (0..n).filter(|i| v[*i].is_ascii_digit()).collect();
            if let Some(&pos) = digits.get((a as usize) % digits.len().max(1)) {
                let extra = 1 + (b % 22) as usize;
                let ins: Vec<u8> = (0..extra).map(|i| b'0' + ((b as usize + i * 7) % 10) as u8).collect();
                v.splice(pos..pos, ins);
            }
        }
        5 => {
            // change a digit
            let digits: Vec<usize> = (0..n).filter(|i| v[*i].is_ascii_digit()).collect();
            if let Some(&pos) = digits.get((a as usize) % digits.len().max(1)) {
                v[pos] = b'0' + (b % 10) as u8;
            }
        }
        _ => {
            // swap a structural byte
            let pos = (a as usize) % n;
            v[pos] = *[b'd', b'l', b'i', b'e', b':', b'-'].get((b % 6) as usize).unwrap();
        }
    }
    v.truncate(1500);
    v
}

impl Net {
    pub fn new(cfg: NetCfg) -> Net {
        let explicit = cfg.explicit.as_ref().map(|l| {
            let mut m: DMap<(SocketAddr, SocketAddr, u64), Vec<FaultKind>> = DMap::default();
            for f in l {
                m.entry((f.src, f.dst, f.ord)).or_default().push(f.kind.clone());
            }
            m
        });
        Net(Arc::new(Mutex::new(NetInner {
            cfg,
            epoch: tokio::time::Instant::now(),
            next_seq: 0,
            heap: BinaryHeap::new(),
            inflight: DMap::default(),
            next_key: 0,
            mailboxes: DMap::default(),
            stub: None,
            link_ord: DMap::default(),
            explicit,
            dead: DSet::default(),
            log: Vec::new(),
            digest: Fnv::default(),
            order_digest: Fnv::default(),
            stats: BTreeMap::new(),
            fired: Vec::new(),
            delivery_waker: None,
            max_events: 2_000_000,
            overflow: false,
        })))
    }

    pub fn lock(&self) -> std::sync::MutexGuard<'_, NetInner> {
        self.0.lock().unwrap()
    }

    pub fn now(&self) -> Ms {
        self.lock().now()
    }

    pub fn set_stub(&self, s: Box<dyn Stub>) {
        self.lock().stub = Some(s);
    }

    pub fn real_socket(&self, addr: SocketAddr) -> SimSocket {
        let mut n = self.lock();
        n.dead.remove(&addr);
        n.mailboxes.insert(
            addr,
            Mailbox { q: VecDeque::new(), wakers: Vec::new(), kind: EpKind::Real, recv_errs: 0, recv_calls: 0, recv_tasks: Vec::new() },
        );
        SimSocket { net: self.clone(), addr }
    }

    pub fn probe_socket(&self, addr: SocketAddr) -> ProbeSocket {
        let mut n = self.lock();
        n.mailboxes.entry(addr).or_insert(Mailbox {
            q: VecDeque::new(),
            wakers: Vec::new(),
            kind: EpKind::Probe,
            recv_errs: 0,
            recv_calls: 0,
            recv_tasks: Vec::new(),
        });
        ProbeSocket { net: self.clone(), addr }
    }

    /// Black-hole an address (crash): queued and future datagrams to it vanish.
    pub fn kill(&self, addr: SocketAddr) {
        let mut n = self.lock();
        n.dead.insert(addr);
        n.mailboxes.remove(&addr);
    }

    /// Make the next `count` recv_from calls of a real node fail.
    pub fn inject_recv_errors(&self, addr: SocketAddr, count: u32) {
        if let Some(m) = self.lock().mailboxes.get_mut(&addr) {
            m.recv_errs += count;
            for w in m.wakers.drain(..) {
                w.wake();
            }
        }
    }

    pub fn send_raw(&self, src: SocketAddr, dst: SocketAddr, bytes: Vec<u8>) {
        let _ = self.lock().send(src, dst, bytes, 0);
    }

    pub fn api(&self, step: usize, ev: ApiEv) {
        let mut n = self.lock();
        let t = n.now();
        n.push(Ev::Api { t, step, ev });
    }

    pub fn fault_note(&self, what: String) {
        let mut n = self.lock();
        let t = n.now();
        n.push(Ev::Fault { t, what });
    }

    /// The delivery task: owns the (time, key) heap order.
    pub async fn run_delivery(self) {
        loop {
            let next = { self.lock().heap.peek().map(|Reverse((at, _))| *at) };
            match next {
                None => {
                    std::future::poll_fn(|cx| {
                        let mut n = self.lock();
                        if n.heap.is_empty() {
                            n.delivery_waker = Some(cx.waker().clone());
                            Poll::Pending
                        } else {
                            Poll::Ready(())
                        }
                    })
                    .await;
                }
                Some(at) => {
                    let (epoch, now) = {
                        let n = self.lock();
                        (n.epoch, n.now())
                    };
                    if at > now {
                        let deadline = epoch + Duration::from_millis(at);
                        let sleep = tokio::time::sleep_until(deadline);
                        tokio::pin!(sleep);
                        // wake up early if something earlier gets queued
                        std::future::poll_fn(|cx| {
                            if sleep.as_mut().poll(cx).is_ready() {
                                return Poll::Ready(());
                            }
                            let mut n = self.lock();
                            let head = n.heap.peek().map(|Reverse((a, _))| *a);
                            if head.map(|h| h < at).unwrap_or(false) {
                                return Poll::Ready(());
                            }
                            n.delivery_waker = Some(cx.waker().clone());
                            Poll::Pending
                        })
                        .await;
                    }
                    let (touched, check) = {
                        let mut n = self.lock();
                        (n.deliver_due(), n.cfg.check_table_shape)
                    };
                    if check {
                        for a in touched {
                            crate::tablemon::check_shape(&self, &a);
                        }
                    }
                    tokio::task::yield_now().await;
                }
            }
        }
    }
}

use std::future::Future;

/// The transport handed to a real `MainlineDht` (implements btdht's public `SocketTrait`).
pub struct SimSocket {
    net: Net,
    addr: SocketAddr,
}

#[async_trait]
impl btdht::SocketTrait for SimSocket {
    async fn send_to(&self, buf: &[u8], target: &SocketAddr) -> io::Result<()> {
        let jitter = {
            let mut n = self.net.lock();
            let ord = n.link_ord.get(&(self.addr, *target)).copied().unwrap_or(0);
            let y = n.cfg.yield_ppm > 0 && n.roll(&self.addr, target, ord, 21) % PPM < n.cfg.yield_ppm as u64;
            if y {
                n.bump("fault_sched_yield_send");
            }
            y
        };
        if jitter {
            tokio::task::yield_now().await;
        }
        // stall: a slow socket; also the knob that moves the handler/bootstrap interleaving
        let stall = {
            let mut n = self.net.lock();
            let now = n.now();
            let ord = n.link_ord.get(&(self.addr, *target)).copied().unwrap_or(0);
            let mut stall = 0;
            if n.explicit.is_some() {
                if let Some(l) = n.explicit_for(&self.addr, target, ord) {
                    for k in l {
                        if let FaultKind::Stall { ms } = k {
                            stall = *ms;
                        }
                    }
                }
            } else if n.cfg.stall_ppm > 0
                && n.in_fault_window(now)
                && n.roll(&self.addr, target, ord, 11) % PPM < n.cfg.stall_ppm as u64
            {
                stall = 1 + n.roll(&self.addr, target, ord, 12) % n.cfg.stall_max_ms.max(1);
                let src = self.addr;
                n.fired.push(ExplicitFault { src, dst: *target, ord, kind: FaultKind::Stall { ms: stall } });
            }
            if stall > 0 {
                n.bump("fault_stall");
            }
            stall
        };
        if stall > 0 {
            tokio::time::sleep(Duration::from_millis(stall)).await;
        }
        if target.port() == 0 {
            // what the operating system does with a destination port of 0 (a contact can be
            // advertised with any port by whoever names it)
            self.net.lock().bump("fault_send_to_port_0_einval");
            return Err(io::Error::from_raw_os_error(22));
        }
        let (r, check) = {
            let mut n = self.net.lock();
            if n.dead.contains(&self.addr) {
                // crashed node still running its last instructions: nothing leaves the host
                return Ok(());
            }
            (n.send(self.addr, *target, buf.to_vec(), 0), n.cfg.check_table_shape)
        };
        if check {
            crate::tablemon::check_shape(&self.net, &self.addr);
        }
        let late = {
            let mut n = self.net.lock();
            let ppm = n.cfg.worker_stall_ppm;
            if ppm == 0 {
                0
            } else {
                let me = tokio::task::try_id().map(|i| i.to_string()).unwrap_or_default();
                let is_loop = n.mailboxes.get(&self.addr).map(|m| m.recv_tasks.contains(&me)).unwrap_or(true);
                let ord = n.link_ord.get(&(self.addr, *target)).copied().unwrap_or(0);
                if !is_loop && n.roll(&self.addr, target, ord, 24) % PPM < ppm as u64 {
                    n.bump("fault_worker_stall");
                    let ms = 1 + n.roll(&self.addr, target, ord, 25) % n.cfg.worker_stall_max_ms.max(1);
                    // recorded for the oracles: the worker acts on this send (marks the contact, takes
                    // the answer) only when it gets the CPU back
                    let tid = crate::krpc::Msg::parse(buf).map(|m| crate::krpc::hex(&m.t)).unwrap_or_default();
                    let t = n.now();
                    n.push(Ev::Fault { t, what: format!("worker_stall {} {} {}", target, tid, ms) });
                    ms
                } else {
                    0
                }
            }
        };
        if late > 0 {
            tokio::time::sleep(Duration::from_millis(late)).await;
        }
        r
    }

    async fn recv_from(&self, buf: &mut [u8]) -> io::Result<(usize, SocketAddr)> {
        let jitter = {
            let mut n = self.net.lock();
            let ppm = n.cfg.yield_ppm;
            let me = tokio::task::try_id().map(|i| i.to_string()).unwrap_or_default();
            let calls = match n.mailboxes.get_mut(&self.addr) {
                Some(m) => {
                    m.recv_calls += 1;
                    if !m.recv_tasks.contains(&me) {
                        m.recv_tasks.push(me);
                    }
                    m.recv_calls
                }
                None => 0,
            };
            let y = ppm > 0 && n.roll(&self.addr, &self.addr, calls, 22) % PPM < ppm as u64;
            if y {
                n.bump("fault_sched_yield_recv");
            }
            let eppm = n.cfg.recv_err_ppm;
            if calls > 0 && eppm > 0 && n.roll(&self.addr, &self.addr, calls, 23) % PPM < eppm as u64 {
                n.bump("fault_recv_err");
                return Err(io::Error::from_raw_os_error(104));
            }
            y
        };
        if jitter {
            tokio::task::yield_now().await;
        }
        std::future::poll_fn(|cx| {
            let mut n = self.net.lock();
            let m = match n.mailboxes.get_mut(&self.addr) {
                Some(m) => m,
                None => return Poll::Pending, // crashed: never receives again
            };
            if m.recv_errs > 0 {
                m.recv_errs -= 1;
                n.bump("fault_recv_err");
                return Poll::Ready(Err(io::Error::from_raw_os_error(104)));
            }
            if let Some((data, from, seq, corrupted)) = m.q.pop_front() {
                let k = data.len().min(buf.len());
                buf[..k].copy_from_slice(&data[..k]);
                if data.len() > buf.len() {
                    n.bump("rx_truncated");
                }
                let t = n.now();
                let dst = self.addr;
                n.push(Ev::Recv { t, seq, src: from, dst, bytes: data[..k].to_vec(), corrupted });
                Poll::Ready(Ok((k, from)))
            } else {
                m.wakers.clear();
                m.wakers.push(cx.waker().clone());
                Poll::Pending
            }
        })
        .await
    }

    fn local_addr(&self) -> io::Result<SocketAddr> {
        Ok(self.addr)
    }
}

/// Mailbox endpoint driven by workload code (probes, adversary).
#[derive(Clone)]
pub struct ProbeSocket {
    pub net: Net,
    pub addr: SocketAddr,
}

impl ProbeSocket {
    pub fn send(&self, to: SocketAddr, bytes: Vec<u8>) {
        let _ = self.net.lock().send(self.addr, to, bytes, 0);
    }

    /// Wait for the next datagram satisfying `pred`, up to `timeout_ms`. Non-matching datagrams
    /// stay queued for other waiters.
    pub async fn recv_match<F: Fn(&[u8], &SocketAddr) -> bool>(
        &self,
        pred: F,
        timeout_ms: Ms,
    ) -> Option<(Vec<u8>, SocketAddr)> {
        let sleep = tokio::time::sleep(Duration::from_millis(timeout_ms));
        tokio::pin!(sleep);
        std::future::poll_fn(|cx| {
            {
                let mut n = self.net.lock();
                if let Some(m) = n.mailboxes.get_mut(&self.addr) {
                    if let Some(pos) = m.q.iter().position(|(d, f, _, _)| pred(d, f)) {
                        return Poll::Ready(m.q.remove(pos).map(|(d, f, _, _)| (d, f)));
                    }
                    // several probe tasks may share one mailbox: all of them are woken on arrival
                    if !m.wakers.iter().any(|w| w.will_wake(cx.waker())) {
                        m.wakers.push(cx.waker().clone());
                    }
                }
            }
            if sleep.as_mut().poll(cx).is_ready() {
                return Poll::Ready(None);
            }
            Poll::Pending
        })
        .await
    }

    pub fn drain(&self) -> Vec<(Vec<u8>, SocketAddr)> {
        let mut n = self.net.lock();
        n.mailboxes
            .get_mut(&self.addr)
            .map(|m| m.q.drain(..).map(|(d, f, _, _)| (d, f)).collect())
            .unwrap_or_default()
    }
}

//! C12 — the routing table cannot be filled by parties the node did not ask.

use super::common::*;
use super::{Property, Tier, Verdict};
use crate::entropy::Rng;
use crate::exec::{ForgeFrom, ForgeTid, Op, RunLog, Scenario};
use crate::krpc::{self, hex, Val};
use crate::log::{ApiEv, Ev};
use crate::stubs::{Answer, NodeRef, NodesMode, StubCfg};
use serde_json::json;
use std::collections::{BTreeMap, BTreeSet};
use std::net::SocketAddr;

pub struct C12;

/// Adversary identities are derived from the scenario, so the oracle can recompute them.
fn adv_id(k: u32) -> [u8; 20] {
    let mut id = [0xADu8; 20];
    id[16..20].copy_from_slice(&k.to_be_bytes());
    id[0] = 0xE0 | (k as u8 & 0x0f);
    id
}

fn is_adv_id(id: &[u8; 20]) -> bool {
    id[1..16].iter().all(|b| *b == 0xAD) && id[0] & 0xF0 == 0xE0
}

impl Property for C12 {
    fn id(&self) -> &'static str {
        "C12"
    }
    fn level(&self) -> &'static str {
        "fault_enumeration"
    }
    fn runs(&self, tier: Tier) -> u64 {
        match tier {
            Tier::Quick => 2_000,
            Tier::Thorough => 100_000,
        }
    }
    fn generate(&self, seed: u64, idx: u64, _tier: Tier) -> Scenario {
        let mut rng = Rng::new(seed ^ 0xC12 ^ idx.wrapping_mul(0x9E37_79B9_7F4A_7C15));
        let mut sc = Scenario::new("c12");
        sc.entropy_seed = rng.next();
        sc.tokio_seed = rng.next();
        let v6 = rng.chance(1, 3);
        sc.world.v6 = v6;
        let faults = !rng.chance(1, 5);
        sc.net = swarm_net(&mut rng, &[0, 5, 50, 300, 1000], faults);
        sc.net.corrupt_ppm = 0; // identities are recognised by value; see DESIGN.md (C12)
        sc.net.check_table_shape = true;
        let mut real = default_real(v6, 0, &mut rng);
        real.read_only = rng.chance(1, 2);
        let own = real.id.unwrap();
        let node = real.addr;
        let n = rng.range(2, 20) as usize;
        let n_routers = rng.range(0, 2.min(n as u64 - 1)) as usize;
        let mut router_addrs = Vec::new();
        for i in 0..n {
            let mut s = StubCfg::honest(stub_addr(v6, i), rng.id20());
            if i < n_routers {
                router_addrs.push(s.addr);
                real.routers.push(s.addr.to_string());
                // (a router may be listed as a starting node as well; it is a router all the same)
                if rng.chance(1, 3) {
                    real.nodes.push(s.addr);
                }
            } else if real.nodes.len() < 6 {
                real.nodes.push(s.addr);
            }
            if rng.chance(1, 8) {
                s.answer = Answer::SilentFrom(rng.range(2_000, 60_000));
            }
            sc.world.stubs.push(s);
        }
        // hearsay inside accepted responses: own id, router addresses, duplicates, dozens of
        // names at unreachable addresses (class 5)
        let mut unreachable = 0u32;
        for i in n_routers..n {
            if rng.chance(1, 2) {
                let mut extra = Vec::new();
                if rng.chance(1, 2) {
                    extra.push(NodeRef { id: own, addr: addr(v6, 5, 1, 6881) });
                    extra.push(NodeRef { id: own, addr: node });
                }
                for r in &router_addrs {
                    extra.push(NodeRef { id: rng.id20(), addr: *r });
                }
                if rng.chance(1, 2) {
                    let d = rng.id20();
                    unreachable += 1;
                    let a = addr(v6, 5, 100 + unreachable, 6881);
                    extra.push(NodeRef { id: d, addr: a });
                    extra.push(NodeRef { id: d, addr: a });
                }
                let many = if rng.chance(1, 4) { rng.range(20, 40) } else { rng.range(0, 4) };
                for _ in 0..many {
                    unreachable += 1;
                    extra.push(NodeRef { id: rng.id20(), addr: addr(v6, 5, 100 + unreachable, 6881) });
                }
                sc.world.stubs[i].nodes = NodesMode::ClosestPlus(extra);
            }
        }
        // ids of nodes the victim will only ever know by hearsay (named at unreachable addresses)
        let hearsay_ids: Vec<[u8; 20]> = sc.world.stubs.iter().flat_map(|s| match &s.nodes {
            NodesMode::ClosestPlus(l) => l.iter().filter(|n| addr_class(&n.addr) == 5 && n.id != own).map(|n| n.id).collect::<Vec<_>>(),
            _ => vec![],
        }).collect();
        let hearsay_refs: Vec<([u8; 20], SocketAddr)> = sc.world.stubs.iter().flat_map(|s| match &s.nodes {
            NodesMode::ClosestPlus(l) => l.iter().filter(|n| addr_class(&n.addr) == 5 && n.id != own).map(|n| (n.id, n.addr)).collect::<Vec<_>>(),
            _ => vec![],
        }).collect();
        sc.reals.push(real);
        let t_start = *rng.pick(&[0u64, 0, 1_000]);
        sc.at(t_start, Op::Start { node: 0 });
        let horizon = *rng.pick(&[20_000u64, 60_000, 300_000]);
        // the node's own activity: searches
        for _ in 0..rng.range(0, 3) {
            sc.at(t_start + rng.range(3_000, horizon), Op::Search { node: 0, ih: rng.id20(), announce: rng.chance(1, 2) });
        }
        // the adversary: everything it sends must be ignored
        let n_adv = rng.range(5, 60);
        let mut k = 0u32;
        for _ in 0..n_adv {
            k += 1;
            let from = addr(v6, 3, rng.range(1, 8) as u32, 6000 + rng.below(3) as u16);
            let t = match rng.below(5) {
                0 => t_start,                                  // before any request was sent
                1 => t_start + rng.range(0, 3_000),            // while bootstrapping
                _ => t_start + rng.range(0, horizon),
            };
            // impostor: some queries claim the id of a hearsay-only node, from another address
            let id = if !hearsay_ids.is_empty() && rng.chance(1, 3) { *rng.pick(&hearsay_ids) } else { adv_id(k) };
            let named: Vec<([u8; 20], SocketAddr)> = (0..rng.range(0, 8))
                .map(|j| {
                    k += 1;
                    (adv_id(k), addr(v6, 3, 1000 + k + j as u32, 6881))
                })
                .collect();
            // a node known by hearsay only "answers" out of the blue, from its own address and with
            // its own id, a request the victim never made (never-used prefix / wrong length): that
            // is not an answer, the contact stays questionable
            let (from, id, kind) = if !hearsay_refs.is_empty() && rng.chance(1, 5) {
                let (hid, haddr) = *rng.pick(&hearsay_refs);
                (haddr, hid, rng.range(4, 8))
            } else {
                (from, id, rng.below(9))
            };
            let bytes = match kind {
                0 => ping(&rng.bytes_in(0, 8), &id),
                1 => find_node(&rng.bytes_in(0, 8), &id, &own, None),
                2 => get_peers(&rng.bytes_in(0, 8), &id, &rng.id20(), None),
                3 => krpc::query(
                    &rng.bytes_in(0, 8),
                    "announce_peer",
                    Val::dict().with("id", Val::bytes(&id)).with("info_hash", Val::Bytes(rng.bytes(20))).with("port", Val::Int(1234)).with("token", Val::Bytes(rng.bytes(20))),
                )
                .encode(),
                x => {
                    // responses
                    let tid = match x {
                        4 | 5 => {
                            // wrong length
                            let l = *rng.pick(&[0usize, 1, 2, 4, 7, 9, 12, 16, 32]);
                            rng.bytes(l)
                        }
                        _ => {
                            // 8 bytes, action prefix >= 2^32: never handed out
                            let mut b = rng.bytes(8);
                            b[0] |= 0x80;
                            b
                        }
                    };
                    let mut r = Val::dict().with("id", Val::bytes(&id));
                    if !named.is_empty() {
                        r.set(if v6 { "nodes6" } else { "nodes" }, Val::Bytes(krpc::compact_nodes(&named)));
                    }
                    if rng.chance(1, 2) {
                        r.set("token", Val::Bytes(rng.bytes(20)));
                        r.set("values", krpc::values_list(&[addr(v6, 3, 50_000 + k, 1)]));
                    }
                    krpc::response(&tid, r).encode()
                }
            };
            sc.at(t, Op::Raw { from, to: node, bytes });
        }
        // wrong-length ids derived from ids the node really uses (observed on the wire): a real id
        // with bytes appended, or cut short; from the queried address or from elsewhere
        let searches: Vec<(u64, [u8; 20])> = sc.steps.iter().filter_map(|s| match (&s.when, &s.op) {
            (crate::exec::When::At(t), Op::Search { ih, .. }) => Some((*t, *ih)),
            _ => None,
        }).collect();
        for _ in 0..rng.range(0, 12) {
            k += 1;
            let base = if !searches.is_empty() && rng.chance(2, 3) {
                let (t, ih) = *rng.pick(&searches);
                (t + rng.range(0, 2_500), ForgeTid::LatestGetPeers { ih })
            } else {
                (t_start + rng.range(100, horizon), ForgeTid::LatestFindNode)
            };
            let (keep, append) = match rng.below(4) {
                0 => (8, rng.bytes_in(1, 2)),
                1 => (8, rng.bytes_in(3, 24)),
                2 => (rng.range(5, 7) as usize, vec![]),
                _ => (rng.range(5, 7) as usize, rng.bytes_in(2, 9).into_iter().chain([0u8]).collect()),
            };
            // never produce a valid 8-byte id by accident
            let append = if keep + append.len() == 8 { [append, vec![7]].concat() } else { append };
            let named: Vec<([u8; 20], SocketAddr)> = (0..rng.range(0, 4)).map(|j| { k += 1; (adv_id(k), addr(v6, 3, 1000 + k + j as u32, 6881)) }).collect();
            sc.at(base.0, Op::Forge {
                node: 0,
                tid: ForgeTid::Derived { base: Box::new(base.1), keep, append },
                from: if rng.chance(1, 2) { ForgeFrom::Queried } else { ForgeFrom::Addr(addr(v6, 3, rng.range(1, 8) as u32, 6000)) },
                responder_id: adv_id(k),
                values: vec![addr(v6, 3, 50_000 + k, 1)],
                token: Some(rng.bytes(20)),
                nodes: named,
            });
        }
        // revenants: contacts named exactly once (class-6 addresses), which never answer and are
        // therefore dropped as bad within a minute; two minutes or more later they send queries from
        // that very address and id. A query never (re-)admits its sender.
        if horizon >= 300_000 && n > n_routers && rng.chance(1, 2) {
            for j in 0..rng.range(1, 2) as u32 {
                let rid = rng.id20();
                let raddr = addr(v6, 6, j + 1, 6881);
                let host = rng.range(n_routers as u64, n as u64 - 1) as usize;
                let mut l = match &sc.world.stubs[host].nodes {
                    NodesMode::ClosestPlus(l) => l.clone(),
                    _ => vec![],
                };
                l.push(NodeRef { id: rid, addr: raddr });
                // (a stub that names a revenant names its extras once only)
                sc.world.stubs[host].nodes = NodesMode::ClosestPlusOnce(l);
                for _ in 0..rng.range(1, 4) {
                    let t = t_start + rng.range(120_000, horizon - 10_000);
                    let bytes = match rng.below(3) {
                        0 => ping(&rng.bytes_in(1, 8), &rid),
                        1 => find_node(&rng.bytes_in(1, 8), &rid, &own, None),
                        _ => get_peers(&rng.bytes_in(1, 8), &rid, &rng.id20(), None),
                    };
                    sc.at(t, Op::Raw { from: raddr, to: node, bytes });
                }
            }
            sc.params.insert("revenants".into(), 1);
        }
        let period = *rng.pick(&[700u64, 1_900, 4_300]);
        sc.at(t_start, Op::SampleEvery { node: 0, period_ms: period, count: ((horizon + 10_000) / period) as u32, table: true });
        sc.end_ms = t_start + horizon + 30_000;
        sc.params.insert("unreachable".into(), unreachable as i64);
        sc
    }

    fn sweep(&self, sc: &Scenario, base: &RunLog, tier: Tier) -> Vec<Scenario> {
        if sc.entropy_seed % 16 != 0 || sc.net.any_random_faults() {
            return vec![];
        }
        let cap = match tier {
            Tier::Quick => 10,
            Tier::Thorough => 80,
        };
        single_fault_variants(sc, base, &["drop", "dup", "delay"], cap, 2_600)
    }

    fn check(&self, sc: &Scenario, run: &RunLog) -> Verdict {
        let mut v = Verdict::default();
        let real = &sc.reals[0];
        let own = real.id.unwrap();
        let v6 = real.addr.is_ipv6();
        let routers: BTreeSet<SocketAddr> = real.routers.iter().filter_map(|r| r.parse().ok()).collect();
        let adv_addrs: BTreeSet<SocketAddr> = sc
            .steps
            .iter()
            .filter_map(|s| match &s.op {
                Op::Raw { from, .. } if addr_class(from) == 3 => Some(*from),
                _ => None,
            })
            .collect();
        for p in &run.panics {
            v.violate("C12", "panic", 0, format!("a task panicked: {p}"));
        }
        let mut samples = 0u64;
        let mut max_live = 0usize;
        let mut saw_hearsay = false;
        let mut once: BTreeSet<&'static str> = BTreeSet::new();
        let mut fire = |v: &mut Verdict, clause: &'static str, t: u64, d: String| {
            if once.insert(clause) {
                v.violate("C12", clause, t, d);
            }
        };
        // revenants (class 6): first query time per address, and whether the sample before it listed them
        let mut rev_first_q: BTreeMap<SocketAddr, u64> = BTreeMap::new();
        for st in &sc.steps {
            if let (crate::exec::When::At(t), Op::Raw { from, .. }) = (&st.when, &st.op) {
                if addr_class(from) == 6 {
                    let e = rev_first_q.entry(*from).or_insert(*t);
                    *e = (*e).min(*t);
                }
            }
        }
        let mut rev_live_before: BTreeSet<SocketAddr> = BTreeSet::new();
        // when the node was (last) told about each revenant: a naming re-admits it as questionable
        let mut rev_named: BTreeMap<SocketAddr, u64> = BTreeMap::new();
        for e in &run.log {
            match e {
                Ev::Recv { t, dst, bytes, .. } if *dst == real.addr && !rev_first_q.is_empty() => {
                    if let Some(l) = krpc::Msg::parse(bytes).and_then(|m| m.resp().and_then(|r| r.get(if v6 { "nodes6" } else { "nodes" }).and_then(|x| x.as_bytes()).and_then(|b| krpc::parse_compact_nodes(b, v6)))) {
                        for (_, a) in l {
                            if rev_first_q.contains_key(&a) {
                                rev_named.insert(a, *t);
                            }
                        }
                    }
                }
                Ev::Api { t, ev: ApiEv::Sample { contacts: Some((g, q)), .. }, .. } => {
                    for (a, tq) in &rev_first_q {
                        // judged only if the one naming lies at least 100 s before the query (time enough
                        // for two unanswered pings in any regime) and nobody named it again since
                        match rev_named.get(a) {
                            Some(tn) if *tn + 100_000 <= *tq => {}
                            _ => continue,
                        }
                        let listed = g.contains(a) || q.contains(a);
                        if *t + 60_000 >= *tq && *t <= *tq && listed {
                            // still (or again) a live contact shortly before it queries: a query from a
                            // known contact legitimately refreshes it; not judged
                            rev_live_before.insert(*a);
                        }
                        if *t > *tq + 200 && listed && !rev_live_before.contains(a) {
                            fire(&mut v, "query_sender_admitted", *t, format!("{a} had been dropped from the contacts (named once, never answered); after it sent a query at {tq} ms it is listed again at {t} ms"));
                        }
                    }
                }
                _ => {}
            }
        }
        if rev_first_q.iter().any(|(a, tq)| !rev_live_before.contains(a) && rev_named.get(a).map(|tn| *tn + 100_000 <= *tq).unwrap_or(false)) {
            v.hit("dropped_contact_sends_queries");
        }
        for e in &run.log {
            match e {
                Ev::Api { t, ev: ApiEv::Sample { contacts, table, .. }, .. } => {
                    samples += 1;
                    if let Some(tb) = table {
                        max_live = max_live.max(tb.live().count());
                        for (_, s) in tb.live() {
                            if is_adv_id(&s.id) {
                                fire(&mut v, "unsolicited_party_admitted", *t, format!("table lists {} at {} (standing {}), an identity that only ever appeared in datagrams the node never asked for", hex(&s.id), s.addr, s.status));
                            }
                            if adv_addrs.contains(&s.addr) || addr_class(&s.addr) == 3 {
                                fire(&mut v, "unsolicited_sender_admitted", *t, format!("table lists the address {} of a party that only sent unsolicited datagrams", s.addr));
                            }
                            if s.id == own {
                                fire(&mut v, "own_id_admitted", *t, format!("table lists the node's own id at {}", s.addr));
                            }
                            if routers.contains(&s.addr) {
                                fire(&mut v, "router_admitted", *t, format!("table lists router address {}", s.addr));
                            }
                            // class-5 addresses exist only as names inside responses: nobody answers there
                            if s.addr == addr(v6, 5, addr_n(&s.addr), s.addr.port()) && addr_class(&s.addr) == 5 {
                                saw_hearsay = true;
                                if s.status == 2 {
                                    fire(&mut v, "hearsay_reported_good", *t, format!("{} at {} was only ever named by others, never answered or queried, yet is good", hex(&s.id), s.addr));
                                }
                            }
                        }
                    }
                    if let Some((g, q)) = contacts {
                        for a in g.iter().chain(q.iter()) {
                            if adv_addrs.contains(a) || addr_class(a) == 3 {
                                fire(&mut v, "unsolicited_sender_admitted", *t, format!("load_contacts lists {a}, a party that only sent unsolicited datagrams"));
                            }
                            if routers.contains(a) {
                                fire(&mut v, "router_admitted", *t, format!("load_contacts lists router address {a}"));
                            }
                        }
                        for a in g {
                            if addr_class(a) == 5 {
                                fire(&mut v, "hearsay_reported_good", *t, format!("load_contacts reports {a} good although it was only ever named by others"));
                            }
                        }
                    }
                }
                _ => {}
            }
        }
        // no search result may come from the ignored datagrams
        for s in super::c03::reconstruct(sc, run) {
            for (clause, t, d) in super::c03::judge(&s) {
                if clause == "fabricated_peer" || clause == "announce_to_stranger" {
                    fire(&mut v, if clause == "fabricated_peer" { "search_result_from_ignored_datagram" } else { "announce_to_unsolicited_party" }, t, d);
                }
            }
            v.hit("search_ran");
        }
        if run.stats.get("fault_forge").copied().unwrap_or(0) > 0 {
            v.hit("wrong_length_id_derived_from_real_one");
        }
        let adv = run.stats.get("sent_raw").copied().unwrap_or(0);
        v.hit_n("unsolicited_datagrams", adv);
        if saw_hearsay {
            v.hit("hearsay_admitted_as_questionable");
        }
        if !routers.is_empty() {
            v.hit("routers_configured");
        }
        if max_live > 8 {
            v.hit("more_than_8_contacts");
        }
        if real.read_only {
            v.hit("read_only_run");
        }
        v.nontrivial = samples > 2 && adv > 0 && max_live > 0;
        v.sample = json!({"stubs": sc.world.stubs.len(), "routers": real.routers.len(), "unsolicited_datagrams": adv, "samples": samples, "max_live_nodes": max_live, "read_only": real.read_only});
        v
    }
    fn rule(&self) -> &'static str {
        "one real node (serving or read-only) with 2..20 stubs (0..2 of them configured as routers, some of those listed as starting nodes too) whose accepted answers also name the node's own id, router addresses, duplicates and up to 40 unreachable addresses; 0..3 searches; contacts named exactly once that never answer (dropped as bad within a minute) send queries from their own address and id 2..5 minutes later; an adversary sends 5..60 datagrams from unknown addresses while the node bootstraps / idles / searches: the four query kinds (some claiming the id of a node the victim only knows by hearsay), unsolicited responses sent from the very address and id of such a hearsay-only node, responses with ids of length 0..32 != 8 (random, or derived from an id the node really used by appending or cutting bytes), and 8-byte ids whose action prefix is >= 2^32 (never handed out), some before any request was sent, each naming up to 8 further adversary identities and carrying unique values; message faults (drop, delay, duplicate, reorder, send errors, stalls) at swarm-drawn rates, plus a single-fault sweep; table dump and load_contacts sampled every 0.7..4.3 s. non-trivial = unsolicited datagrams were sent and the table held at least one node; distinct = distinct order digests"
    }
    fn assumptions(&self) -> Vec<&'static str> {
        vec!["in-flight corruption is off in this family: adversary identities are recognised by value in table dumps", "forged responses that reuse a low, guessable action prefix or a timed-out id of a live search are deliberately not asserted (the statement does not cover them)"]
    }
    fn required_reach(&self) -> Vec<&'static str> {
        vec!["unsolicited_datagrams", "hearsay_admitted_as_questionable", "routers_configured", "more_than_8_contacts", "read_only_run", "search_ran", "wrong_length_id_derived_from_real_one", "dropped_contact_sends_queries"]
    }
}

//! C08 — routing table keeps its shape; a node is only traded for a strictly better one.
//!
//! (i) component history simulation: the harness owns a `RoutingTable` (hook H2) inside a paused
//! tokio runtime (hook H1 makes node status follow the virtual clock), applies a generated history
//! of offers / requests / clock advances and compares every transition with a small reference
//! model of the admission rule. (ii) the shape clauses are additionally evaluated on whole nodes at
//! every scheduling point in the C09..C12 families (net.check_table_shape).

use super::common::*;
use super::{Property, Tier, Verdict};
use crate::entropy::Rng;
use crate::exec::{RunLog, Scenario, TableOp};
use crate::krpc::{hex, lcp};
use crate::log::{ApiEv, Ev, TableDump};
use crate::tablemon::{dump_table, shape_violations};
use btdht::verif::{Node, NodeHandle, RoutingTable};
use btdht::InfoHash;
use serde_json::json;
use std::collections::{BTreeMap, BTreeSet};
use std::net::SocketAddr;

pub struct C08;

type Handle = ([u8; 20], SocketAddr);

fn live_map(d: &TableDump) -> BTreeMap<Handle, u8> {
    d.live().map(|(_, s)| ((s.id, s.addr), s.status)).collect()
}

/// Reference model of one offer. Returns the acceptable outcomes:
/// (may_stay_unchanged, must_admit_without_removal, removable set if admitted by replacement)
fn model_offer(before: &TableDump, n: &Handle, standing: u8) -> (bool, bool, BTreeSet<Handle>) {
    let own = before.node_id;
    let live = live_map(before);
    if n.0 == own || before.routers.contains(&n.1) || standing == 0 {
        return (true, false, BTreeSet::new());
    }
    if live.contains_key(n) {
        // repeat: updated in place, nobody leaves
        return (true, false, BTreeSet::new());
    }
    let l = lcp(&own, &n.0);
    let mut nb = before.buckets.len();
    loop {
        let b = l.min(nb - 1);
        let members: Vec<(&Handle, &u8)> = live.iter().filter(|(h, _)| lcp(&own, &h.0).min(nb - 1) == b).collect();
        if members.len() < 8 {
            return (false, true, BTreeSet::new());
        }
        let worse: BTreeSet<Handle> = members.iter().filter(|(_, s)| **s < standing).map(|(h, _)| **h).collect();
        if !worse.is_empty() {
            return (false, false, worse);
        }
        if b == nb - 1 && nb < 160 {
            nb += 1;
            continue;
        }
        return (true, false, BTreeSet::new());
    }
}

struct Finding {
    clause: &'static str,
    step: usize,
    detail: String,
}

fn judge_offer(step: usize, before: &TableDump, after: &TableDump, n: &Handle, standing: u8, out: &mut Vec<Finding>) {
    let lb = live_map(before);
    let la = live_map(after);
    let removed: Vec<(&Handle, &u8)> = lb.iter().filter(|(h, _)| !la.contains_key(*h)).collect();
    let added: Vec<&Handle> = la.keys().filter(|h| !lb.contains_key(*h)).collect();
    let what = if standing == 2 { "good" } else { "questionable" };
    if added.iter().any(|h| *h != n) {
        out.push(Finding { clause: "foreign_node_appeared", step, detail: format!("offering {} made other nodes appear: {:?}", hex(&n.0), added.iter().map(|h| hex(&h.0)).collect::<Vec<_>>()) });
    }
    let (may_stay, must_admit_free, removable) = model_offer(before, n, standing);
    if removed.len() > 1 {
        out.push(Finding { clause: "removed_many", step, detail: format!("offering one {what} node removed {} live nodes", removed.len()) });
        return;
    }
    let admitted = la.contains_key(n);
    if let Some((r, rs)) = removed.first() {
        if **rs >= standing {
            out.push(Finding { clause: "removed_not_worse", step, detail: format!("offering a {what} node removed {} whose standing {} is not lower", hex(&r.0), rs) });
        } else if must_admit_free {
            out.push(Finding { clause: "removed_despite_room", step, detail: format!("offering {what} node {} (shares {} bits) removed live node {} (standing {}) although the bucket had a free or bad slot", hex(&n.0), lcp(&before.node_id, &n.0), hex(&r.0), rs) });
        } else if !removable.contains(*r) {
            out.push(Finding { clause: "removed_wrong_node", step, detail: format!("offering a {what} node removed {} which is not a strictly worse node of the offered node's bucket", hex(&r.0)) });
        }
        if !admitted {
            out.push(Finding { clause: "removed_without_admission", step, detail: format!("a node was removed but the offered node {} is not in the table", hex(&n.0)) });
        }
        return;
    }
    // nothing removed
    if !admitted && !may_stay {
        out.push(Finding { clause: "not_admitted", step, detail: format!("offered {what} node {} (shares {} bits, {} buckets) was not admitted although its bucket has {}", hex(&n.0), lcp(&before.node_id, &n.0), before.buckets.len(), if must_admit_free { "room" } else { "a strictly worse node" }) });
    }
    if admitted && !lb.contains_key(n) && may_stay && !must_admit_free && removable.is_empty() {
        out.push(Finding { clause: "admitted_inadmissible", step, detail: format!("offered node {} must not be admitted (own id / router / full bucket of equal-or-better nodes) but is live", hex(&n.0)) });
    }
}

fn run_table(sc: &Scenario) -> Result<RunLog, String> {
    let sc = sc.clone();
    let h = std::thread::Builder::new()
        .name("table".into())
        .spawn(move || {
            crate::entropy::install(sc.entropy_seed);
            let rt = tokio::runtime::Builder::new_current_thread().enable_time().start_paused(true).build().expect("rt");
            rt.block_on(async move {
                let own = sc.reals[0].id.unwrap();
                let mut table = RoutingTable::new(InfoHash::from(own));
                let mut findings: Vec<Finding> = Vec::new();
                let mut digest = crate::entropy::Fnv::default();
                let mut order = crate::entropy::Fnv::default();
                let mut max_buckets = 1usize;
                let mut reach: BTreeMap<String, u64> = BTreeMap::new();
                let mut now_ms = 0u64;
                for (step, op) in sc.table_ops.iter().enumerate() {
                    let before = dump_table(&table);
                    match op {
                        TableOp::OfferGood { id, addr } => table.add_node(Node::as_good(InfoHash::from(*id), *addr)),
                        TableOp::OfferHearsay { id, addr } => table.add_node(Node::as_questionable(InfoHash::from(*id), *addr)),
                        TableOp::AddNodes { id, addr, named } => {
                            let l: Vec<NodeHandle> = named.iter().map(|(i, a)| NodeHandle::new(InfoHash::from(*i), *a)).collect();
                            table.add_nodes(Node::as_good(InfoHash::from(*id), *addr), &l);
                        }
                        TableOp::LocalRequest { id, addr } => {
                            if let Some(n) = table.find_node_mut(&NodeHandle::new(InfoHash::from(*id), *addr)) {
                                n.local_request();
                            }
                        }
                        TableOp::RemoteRequest { id, addr } => {
                            if let Some(n) = table.find_node_mut(&NodeHandle::new(InfoHash::from(*id), *addr)) {
                                n.remote_request();
                            }
                        }
                        TableOp::Advance { ms } => {
                            tokio::time::advance(std::time::Duration::from_millis(*ms)).await;
                            now_ms += ms;
                        }
                        TableOp::SetRouters { addrs } => table.routers = addrs.iter().copied().collect(),
                    }
                    let after = dump_table(&table);
                    max_buckets = max_buckets.max(after.buckets.len());
                    // shape after every operation
                    if !matches!(op, TableOp::SetRouters { .. }) {
                        for (c, d) in shape_violations(&after) {
                            let clause: &'static str = match c.as_str() {
                                "own_id" => "shape_own_id",
                                "router" => "shape_router",
                                "dup" => "shape_dup",
                                "placement" => "shape_placement",
                                "bucket_size" => "shape_bucket_size",
                                _ => "shape_other",
                            };
                            // a router set that changes under a populated table is outside the
                            // property (routers are resolved before contacts are admitted)
                            findings.push(Finding { clause, step, detail: d });
                        }
                    }
                    match op {
                        TableOp::OfferGood { id, addr } => judge_offer(step, &before, &after, &(*id, *addr), 2, &mut findings),
                        TableOp::OfferHearsay { id, addr } => judge_offer(step, &before, &after, &(*id, *addr), 1, &mut findings),
                        TableOp::AddNodes { .. } => {
                            // weaker clauses for the compound call: a good node is never displaced
                            // by it unless by the (good) responder itself, and never more than one
                            let lb = live_map(&before);
                            let la = live_map(&after);
                            let removed_good = lb.iter().filter(|(h, s)| **s == 2 && !la.contains_key(*h)).count();
                            if removed_good > 0 {
                                findings.push(Finding { clause: "removed_not_worse", step, detail: format!("add_nodes displaced {removed_good} good node(s)") });
                            }
                        }
                        TableOp::LocalRequest { .. } | TableOp::RemoteRequest { .. } | TableOp::Advance { .. } => {
                            // no node may appear; nodes may only leave by turning bad
                            let lb = live_map(&before);
                            let la = live_map(&after);
                            if la.keys().any(|h| !lb.contains_key(h)) {
                                findings.push(Finding { clause: "foreign_node_appeared", step, detail: "a node appeared without an offer".into() });
                            }
                        }
                        TableOp::SetRouters { .. } => {}
                    }
                    // reach probes
                    let la = live_map(&after);
                    if after.buckets.len() > before.buckets.len() {
                        *reach.entry("bucket_split".into()).or_insert(0) += 1;
                    }
                    if before.live().count() > la.len() {
                        *reach.entry("node_left".into()).or_insert(0) += 1;
                    }
                    if after.buckets.iter().any(|b| b.iter().filter(|s| s.status == 2).count() == 8) {
                        *reach.entry("full_good_bucket".into()).or_insert(0) += 1;
                    }
                    digest.u64(step as u64);
                    for (h, s) in &la {
                        digest.bytes(&h.0);
                        digest.u64(*s as u64);
                    }
                    order.u64(after.buckets.len() as u64);
                    order.u64(la.len() as u64);
                }
                let final_dump = dump_table(&table);
                let mut log = Vec::new();
                for f in findings.iter().take(8) {
                    log.push(Ev::Invariant { t: f.step as u64, node: sc.reals[0].addr, clause: f.clause.to_string(), detail: f.detail.clone() });
                }
                log.push(Ev::Api { t: now_ms, step: sc.table_ops.len(), ev: ApiEv::Sample { node: 0, state: None, contacts: None, local_addr_ok: true, table: Some(final_dump), counters: Default::default() } });
                reach.insert("max_buckets".into(), max_buckets as u64);
                let mut stats = BTreeMap::new();
                for (k, v) in reach {
                    stats.insert(format!("reach_{k}"), v);
                }
                RunLog { log, digest: digest.0, order_digest: order.0, stats, fired: vec![], end_ms: now_ms, overflow: false, timed_out: false, panics: crate::exec::PANICS.with(|p| p.borrow().clone()), entropy_drawn: 0 }
            })
        })
        .map_err(|e| e.to_string())?;
    h.join().map_err(|_| "table thread panicked".to_string())
}

impl Property for C08 {
    fn id(&self) -> &'static str {
        "C08"
    }
    fn runs(&self, tier: Tier) -> u64 {
        match tier {
            Tier::Quick => 5_000,
            Tier::Thorough => 250_000,
        }
    }
    fn generate(&self, seed: u64, idx: u64, tier: Tier) -> Scenario {
        // (ii) whole-node invariant monitor: every 10th case is a whole-node scenario of the
        // C09/C10/C11/C12 families with the shape invariant evaluated at every scheduling point
        if idx % 25 == 24 {
            let sub = idx / 25;
            let mut sc = match sub % 4 {
                0 => super::c09::C09.generate(seed, sub, Tier::Quick),
                1 => super::c12::C12.generate(seed, sub, Tier::Quick),
                2 => super::c10::C10.generate(seed, sub, Tier::Quick),
                _ => super::c11::C11.generate(seed, sub, Tier::Quick),
            };
            // keep it affordable
            let _ = tier;
            sc.net.check_table_shape = true;
            return sc;
        }
        let mut rng = Rng::new(seed ^ 0xC08 ^ idx.wrapping_mul(0x9E37_79B9_7F4A_7C15));
        let mut sc = Scenario::new("c08_table");
        sc.entropy_seed = rng.next();
        let v6 = rng.chance(1, 4);
        let own = rng.id20();
        let mut real = default_real(v6, 0, &mut rng);
        real.id = Some(own);
        sc.reals.push(real);
        let n_ops = rng.range(20, 400) as usize;
        // pool of ids by shared-prefix depth; depth profile drawn per history
        let max_depth = *rng.pick(&[2usize, 4, 8, 20, 60, 159]);
        let mut pool: Vec<Handle> = Vec::new();
        let routers: Vec<SocketAddr> = (0..rng.range(0, 3)).map(|i| addr(v6, 5, i as u32 + 1, 6881)).collect();
        if !routers.is_empty() {
            sc.table_ops.push(TableOp::SetRouters { addrs: routers.clone() });
        }
        let mut next_addr = 1u32;
        let mut fresh = |rng: &mut Rng, pool: &mut Vec<Handle>| -> Handle {
            let depth = match rng.below(10) {
                0 => 159,                         // differs only in the last bit
                1 => 160,                         // own id
                2 | 3 => rng.below(3) as usize,   // far buckets fill first
                _ => rng.below(max_depth as u64 + 1) as usize,
            };
            let id = if depth >= 160 { own } else { id_with_lcp(&own, depth, rng) };
            let a = if !routers.is_empty() && rng.chance(1, 15) {
                *rng.pick(&routers)
            } else {
                next_addr += 1;
                addr(v6, 1, next_addr, 6881)
            };
            pool.push((id, a));
            (id, a)
        };
        for _ in 0..n_ops {
            let r = rng.below(100);
            let op = if pool.is_empty() || r < 45 {
                let (id, a) = fresh(&mut rng, &mut pool);
                if rng.chance(1, 2) {
                    TableOp::OfferGood { id, addr: a }
                } else {
                    TableOp::OfferHearsay { id, addr: a }
                }
            } else if r < 60 {
                // repeat an earlier offer (same id and address, or same id at another address)
                let (id, a) = *rng.pick(&pool);
                let a = if rng.chance(1, 6) { addr(v6, 1, 60_000 + rng.below(100) as u32, 6881) } else { a };
                if rng.chance(1, 2) {
                    TableOp::OfferGood { id, addr: a }
                } else {
                    TableOp::OfferHearsay { id, addr: a }
                }
            } else if r < 67 {
                let (id, a) = *rng.pick(&pool);
                let mut named = Vec::new();
                for _ in 0..rng.range(0, 8) {
                    let h = if rng.chance(1, 2) && !pool.is_empty() { *rng.pick(&pool) } else { fresh(&mut rng, &mut pool) };
                    named.push(h);
                }
                TableOp::AddNodes { id, addr: a, named }
            } else if r < 80 {
                let (id, a) = *rng.pick(&pool);
                TableOp::LocalRequest { id, addr: a }
            } else if r < 86 {
                let (id, a) = *rng.pick(&pool);
                TableOp::RemoteRequest { id, addr: a }
            } else {
                let ms = match rng.below(6) {
                    0 => 0,
                    1 => rng.range(1, 30_000),
                    2 => 15 * 60_000 - 1,
                    3 => 15 * 60_000,
                    4 => rng.range(14 * 60_000, 16 * 60_000),
                    _ => rng.range(60_000, 3_600_000),
                };
                TableOp::Advance { ms }
            };
            sc.table_ops.push(op);
        }
        sc
    }
    fn run(&self, sc: &Scenario) -> Result<RunLog, String> {
        if sc.family == "c08_table" {
            run_table(sc)
        } else {
            crate::exec::run_scenario(sc)
        }
    }
    fn check(&self, sc: &Scenario, run: &RunLog) -> Verdict {
        let mut v = Verdict::default();
        for p in &run.panics {
            v.violate("C08", "panic", 0, format!("table operation panicked: {p}"));
        }
        if sc.family != "c08_table" {
            // whole-node run: only the live shape invariant is judged here
            for e in &run.log {
                if let Ev::Invariant { t, node, clause, detail } = e {
                    v.violate("C08", clause, *t, format!("live routing table of {node} at {t} ms: {detail}"));
                }
            }
            let checks = run.stats.get("shape_checks").copied().unwrap_or(0);
            v.hit_n("whole_node_shape_checks", checks);
            v.nontrivial = checks > 10;
            v.sample = json!({"family": sc.family, "whole_node": true, "shape_checks": checks, "stubs": sc.world.stubs.len(), "virtual_ms": run.end_ms});
            return v;
        }
        for e in &run.log {
            if let Ev::Invariant { t, clause, detail, .. } = e {
                v.violate("C08", clause, *t, format!("operation {t} ({:?}): {detail}", sc.table_ops.get(*t as usize).map(|o| format!("{o:?}").chars().take(120).collect::<String>())));
            }
        }
        for (k, n) in &run.stats {
            if let Some(r) = k.strip_prefix("reach_") {
                if r == "max_buckets" {
                    if *n >= 3 {
                        v.hit("three_or_more_buckets");
                    }
                    if *n >= 20 {
                        v.hit("twenty_or_more_buckets");
                    }
                } else {
                    v.hit_n(r, *n);
                }
            }
        }
        v.nontrivial = run.stats.get("reach_bucket_split").copied().unwrap_or(0) > 0 || run.stats.get("reach_node_left").copied().unwrap_or(0) > 0;
        let (live, buckets) = run
            .log
            .iter()
            .find_map(|e| match e {
                Ev::Api { ev: ApiEv::Sample { table: Some(t), .. }, .. } => Some((t.live().count(), t.buckets.len())),
                _ => None,
            })
            .unwrap_or((0, 0));
        v.sample = json!({"operations": sc.table_ops.len(), "final_live_nodes": live, "final_buckets": buckets, "first_ops": sc.table_ops.iter().take(4).map(|o| format!("{o:?}").chars().take(100).collect::<String>()).collect::<Vec<_>>()});
        v
    }
    fn rule(&self) -> &'static str {
        "history of 20..400 operations on a RoutingTable under the virtual clock: offers as responder (good) / as hearsay (questionable) with ids drawn by shared-prefix depth 0..159 (incl. last-bit neighbours, the own id, router addresses), repeats (same handle, same id at another address), compound add_nodes, local/remote requests, clock advances of 0 ms..1 h biased to 15 min +-1 ms; every transition is compared with a reference model of the admission rule and the shape clauses are checked after every operation. non-trivial = at least one bucket split or one node leaving; distinct = distinct (bucket count, live count) sequences"
    }
    fn assumptions(&self) -> Vec<&'static str> {
        vec!["table driven through the cfg(btdht_verif) re-exports (hook H2); node status read at the same virtual instant before and after each operation"]
    }
    fn required_reach(&self) -> Vec<&'static str> {
        vec!["bucket_split", "node_left", "full_good_bucket", "twenty_or_more_buckets", "whole_node_shape_checks"]
    }
}

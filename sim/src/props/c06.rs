//! C06 — announce tokens: bound to the requester IP, valid >= 10 min, dead by 30 min.

use super::common::*;
use super::{Property, Tier, Verdict};
use crate::entropy::Rng;
use crate::exec::{Op, ProbeMsg, RealCfg, RunLog, Scenario, TokenSpec, When};
use crate::krpc::{id20, parse_values, Kind};
use crate::log::{ApiEv, Ev};
use serde_json::json;
use std::collections::BTreeMap;
use std::net::{IpAddr, SocketAddr};

pub struct C06;

const MIN10: u64 = 600_000;
const MIN30: u64 = 1_800_000;

impl Property for C06 {
    fn id(&self) -> &'static str {
        "C06"
    }
    fn runs(&self, tier: Tier) -> u64 {
        match tier {
            Tier::Quick => 2_000,
            Tier::Thorough => 150_000,
        }
    }
    fn generate(&self, seed: u64, idx: u64, _tier: Tier) -> Scenario {
        let mut rng = Rng::new(seed ^ 0xC06 ^ idx.wrapping_mul(0x9E37_79B9_7F4A_7C15));
        let mut sc = Scenario::new("c06");
        sc.entropy_seed = rng.next();
        sc.tokio_seed = rng.next();
        let v6 = rng.chance(1, 3);
        sc.net = swarm_net(&mut rng, &[0, 0, 5, 50], false);
        let mut real = default_real(v6, 0, &mut rng);
        real.read_only = false;
        let node = real.addr;
        // restarts are further RealCfg entries on the same address (nothing of a node is durable)
        let n_restarts = if rng.chance(1, 3) { rng.range(1, 2) as usize } else { 0 };
        sc.reals.push(real.clone());
        for _ in 0..n_restarts {
            let mut r2: RealCfg = real.clone();
            if rng.chance(1, 2) {
                r2.id = Some(rng.id20());
            }
            sc.reals.push(r2);
        }
        sc.at(0, Op::Start { node: 0 });
        let mut tids = Tids(0);
        let pid = rng.id20();
        let n_ips = rng.range(2, 6) as u32;
        let ih = rng.id20();
        // issued[k] = (get step, source ip index, time planned)
        let mut issued: Vec<(usize, u32, u64)> = Vec::new();
        let checker = addr(v6, 2, 50_000, 40_000);
        let mut t = 500u64;
        let mut uniq_port = 10_000u16;
        let mut incarnation = 0usize;
        let n_events = rng.range(4, 40);
        let hours = *rng.pick(&[1u64, 2, 6]);
        for _ in 0..n_events {
            // time gap, biased to the 10/20/30-minute edges relative to an earlier issue
            let gap = match rng.below(8) {
                0 => 0,
                1 => rng.range(1, 5_000),
                2 => rng.range(5_000, 300_000),
                3 | 4 | 5 => {
                    if let Some(&(_, _, ti)) = issued.get(rng.below(issued.len().max(1) as u64) as usize) {
                        let base = ti + *rng.pick(&[MIN10, 2 * MIN10, MIN30]);
                        let j = *rng.pick(&[-1_000i64, -1, 0, 1, 1_000, 30_000, -30_000]);
                        ((base as i64 + j) - t as i64).max(1) as u64
                    } else {
                        rng.range(1, 60_000)
                    }
                }
                6 => rng.range(MIN10 - 5_000, MIN10 + 5_000),
                _ => rng.range(MIN30, hours * 3_600_000 / 2),
            };
            t += gap;
            if t > hours * 3_600_000 {
                break;
            }
            match rng.below(10) {
                0..=2 => {
                    // issue: get_peers from one of the ips / ports
                    let ip = rng.range(1, n_ips as u64) as u32;
                    let from = addr(v6, 2, ip, 20_000 + rng.below(3) as u16);
                    let g = step(&mut sc, When::At(t), Op::Probe { from, to: node, msg: ProbeMsg::Bytes(get_peers(&tids.next(), &pid, &ih, None)), timeout_ms: 5_000 });
                    issued.push((g, ip, t));
                }
                3..=7 => {
                    // present a token
                    uniq_port += 1;
                    let ip = rng.range(1, n_ips as u64) as u32;
                    let from = addr(v6, 2, ip, 20_000 + rng.below(3) as u16);
                    let own_latest = issued.iter().rev().find(|(_, i, _)| *i == ip).map(|(g, _, _)| *g);
                    let token = match rng.below(10) {
                        0 => TokenSpec::Bytes(rng.bytes(20)),
                        1 => TokenSpec::Bytes(rng.bytes_in(0, 40)),
                        2..=5 if own_latest.is_some() => TokenSpec::FromStep(own_latest.unwrap()),
                        _ => match issued.get(rng.below(issued.len().max(1) as u64) as usize) {
                            Some(&(g, _, _)) => TokenSpec::FromStep(g),
                            None => TokenSpec::Bytes(vec![]),
                        },
                    };
                    let port = if rng.chance(2, 3) { Some(uniq_port) } else { None };
                    let from = if port.is_none() { SocketAddr::new(from.ip(), uniq_port) } else { from };
                    if rng.chance(1, 4) {
                        // issue and present at once (always fresh)
                        let (g, a) = announce_chain(&mut sc, &mut tids, When::At(t), from, node, &pid, &ih, port);
                        issued.push((g, ip, t));
                        step(&mut sc, When::After { step: a, delay: 1 }, Op::Probe { from: checker, to: node, msg: ProbeMsg::Bytes(get_peers(&tids.next(), &pid, &ih, None)), timeout_ms: 5_000 });
                        continue;
                    }
                    let a = step(&mut sc, When::At(t), Op::Probe { from, to: node, msg: ProbeMsg::Announce { tid: tids.next(), id: pid, ih, port, token }, timeout_ms: 5_000 });
                    // read back (other traffic as far as the token store is concerned)
                    step(&mut sc, When::After { step: a, delay: 1 }, Op::Probe { from: checker, to: node, msg: ProbeMsg::Bytes(get_peers(&tids.next(), &pid, &ih, None)), timeout_ms: 5_000 });
                }
                8 => {
                    // unrelated traffic: pings / find_node / get_peers for other hashes
                    let from = addr(v6, 2, 40_000 + rng.below(50) as u32, 1234);
                    let other = rng.id20();
                    let b = match rng.below(3) {
                        0 => ping(&tids.next(), &pid),
                        1 => find_node(&tids.next(), &pid, &other, None),
                        _ => get_peers(&tids.next(), &pid, &other, None),
                    };
                    step(&mut sc, When::At(t), Op::Probe { from, to: node, msg: ProbeMsg::Bytes(b), timeout_ms: 0 });
                }
                _ => {
                    // crash + restart: tokens of the previous incarnation must die with it
                    if incarnation < n_restarts {
                        step(&mut sc, When::At(t), Op::Drop { node: incarnation, crash: true });
                        incarnation += 1;
                        t += rng.range(1, 5_000);
                        step(&mut sc, When::At(t), Op::Start { node: incarnation });
                        t += 100;
                    }
                }
            }
        }
        sc.end_ms = t + 60_000;
        sc
    }

    fn check(&self, sc: &Scenario, run: &RunLog) -> Verdict {
        let mut v = Verdict::default();
        let node = sc.reals[0].addr;
        // incarnation boundaries
        let mut starts: Vec<u64> = Vec::new();
        for e in &run.log {
            if let Ev::Api { t, ev: ApiEv::NodeStart { .. }, .. } = e {
                starts.push(*t);
            }
        }
        let incarnation_of = |t: u64| starts.iter().filter(|s| **s <= t).count();
        let (pairs, _, _) = pair_replies(&run.log, node);
        // issued[(token bytes, ip)] = latest issue time, with incarnation
        let mut issued: BTreeMap<(Vec<u8>, IpAddr), (u64, usize)> = BTreeMap::new();
        // store model as far as this oracle needs it: contacts acknowledged per incarnation
        let mut stored: BTreeMap<([u8; 20], SocketAddr), (u64, usize)> = BTreeMap::new();
        let mut must_accept = 0u64;
        let mut must_refuse = 0u64;
        let mut either = 0u64;
        let mut accepted_in_between = 0u64;
        for (q, r) in &pairs {
            let now = r.t;
            let inc = incarnation_of(now);
            let qm = q.msg.as_ref().unwrap();
            let rm = r.msg.as_ref().unwrap();
            let a = match qm.args() {
                Some(a) => a,
                None => continue,
            };
            match qm.qname() {
                Some("get_peers") => {
                    if let Some(rr) = rm.resp() {
                        match rr.get("token").and_then(|t| t.as_bytes()) {
                            Some(tok) if tok.len() == 20 => {
                                issued.insert((tok.to_vec(), q.src.ip()), (now, inc));
                            }
                            other => v.violate("C06", "token_missing", now, format!("get_peers reply without a 20-byte token: {:?}", other.map(|t| t.len()))),
                        }
                        // store visibility: everything acknowledged in this incarnation (and only that) is listed
                        if let Some(qih) = a.get("info_hash").and_then(id20) {
                            let vals = rr.get("values").and_then(parse_values).unwrap_or_default();
                            for ((sih, c), (_, cinc)) in &stored {
                                if *sih == qih && *cinc == inc && c.is_ipv6() == q.src.is_ipv6() && !vals.contains(c) {
                                    v.violate("C06", "accepted_not_stored", now, format!("announce for {c} was acknowledged but the peer is not returned by get_peers"));
                                }
                            }
                            for c in &vals {
                                if !stored.get(&(qih, *c)).map(|(_, ci)| *ci == inc).unwrap_or(false) {
                                    v.violate("C06", "stored_without_ack", now, format!("get_peers returns {c}, whose announce was not acknowledged"));
                                }
                            }
                        }
                    }
                }
                Some("announce_peer") => {
                    let tok = a.get("token").and_then(|t| t.as_bytes()).unwrap_or(&[]).to_vec();
                    let implied = a.get("implied_port").and_then(|x| x.as_int()).unwrap_or(0) != 0;
                    let port = a.get("port").and_then(|x| x.as_int()).unwrap_or(0) as u16;
                    let contact = if implied { q.src } else { SocketAddr::new(q.src.ip(), port) };
                    let acked = matches!(rm.kind, Kind::Response { .. });
                    let refused_203 = matches!(rm.kind, Kind::Error { code: 203, .. });
                    if !acked && !refused_203 {
                        v.violate("C06", "unexpected_reply", now, format!("announce_peer answered with {:?}", rm.tag()));
                        continue;
                    }
                    let origin = issued.get(&(tok.clone(), q.src.ip())).copied();
                    let issued_elsewhere = issued.keys().any(|(t, ip)| *t == tok && *ip != q.src.ip());
                    let class = match origin {
                        Some((ti, tinc)) if tinc == inc => {
                            let age = now - ti;
                            if age <= MIN10 {
                                "fresh"
                            } else if age >= MIN30 {
                                "expired"
                            } else {
                                "between"
                            }
                        }
                        Some(_) => "previous_incarnation",
                        None if tok.len() != 20 => "wrong_length",
                        None if issued_elsewhere => "other_ip",
                        None => "never_issued",
                    };
                    v.hit(&format!("presented_{class}"));
                    match class {
                        "fresh" => {
                            must_accept += 1;
                            if !acked {
                                let (ti, _) = origin.unwrap();
                                v.violate("C06", "fresh_token_refused", now, format!("token issued to {} {} ms ago was refused", q.src.ip(), now - ti));
                            }
                        }
                        "between" => {
                            either += 1;
                            if acked {
                                accepted_in_between += 1;
                            }
                        }
                        _ => {
                            must_refuse += 1;
                            if acked {
                                v.violate("C06", &format!("accepted_{class}"), now, format!("announce from {} with a {class} token ({} bytes{}) was acknowledged", q.src, tok.len(), origin.map(|(ti, _)| format!(", issued {} ms ago", now - ti)).unwrap_or_default()));
                            }
                        }
                    }
                    if acked {
                        if let Some(aih) = a.get("info_hash").and_then(id20) {
                            stored.insert((aih, contact), (now, inc));
                        }
                    }
                }
                _ => {}
            }
        }
        v.nontrivial = must_accept > 0 && must_refuse > 0;
        if starts.len() > 1 {
            v.hit("restarted");
        }
        if accepted_in_between > 0 {
            v.hit("accepted_between_10_and_30_min");
        }
        v.sample = json!({"announces_must_accept": must_accept, "must_refuse": must_refuse, "either": either, "incarnations": starts.len(), "virtual_minutes": run.end_ms / 60_000, "steps": sc.steps.len()});
        v
    }
    fn rule(&self) -> &'static str {
        "one real serving node (optionally crashed and restarted on the same address); probes on 2..6 IPs x 3 ports issue get_peers and present tokens (issued to the same IP, to another IP, random 20 bytes, wrong length, of the previous incarnation) over 0..6 virtual hours with gaps biased to 10/20/30 min +- {1 ms, 1 s, 30 s} after an earlier issue, unrelated traffic in between; interval model: latest issue <= 10 min ago from the same IP must be accepted and stored, >= 30 min / other IP / never issued / wrong length / previous incarnation must be refused with 203 and store nothing. non-trivial = at least one must-accept and one must-refuse presentation; distinct = distinct order digests"
    }
    fn assumptions(&self) -> Vec<&'static str> {
        vec!["issue time = send time of the reply carrying the token; use time = send time of the announce reply (no socket stalls in this family)", "ages strictly between 10 and 30 minutes may go either way"]
    }
    fn required_reach(&self) -> Vec<&'static str> {
        vec!["presented_fresh", "presented_expired", "presented_between", "presented_other_ip", "presented_never_issued", "presented_wrong_length", "presented_previous_incarnation", "accepted_between_10_and_30_min"]
    }
}

//! C07 — peer store: exact, duplicate-free, 24-hour, capacity-bounded answers.

use super::common::*;
use super::{Property, Tier, Verdict};
use crate::entropy::Rng;
use crate::exec::{Op, ProbeMsg, RunLog, Scenario, TokenSpec, When};
use crate::krpc::{id20, parse_values, Kind};
use serde_json::json;
use std::collections::{BTreeMap, BTreeSet};
use std::net::SocketAddr;

pub struct C07;

const DAY_MS: u64 = 24 * 3600 * 1000;
const CAP: usize = 500;

impl Property for C07 {
    fn id(&self) -> &'static str {
        "C07"
    }
    fn runs(&self, tier: Tier) -> u64 {
        match tier {
            Tier::Quick => 320,
            Tier::Thorough => 12_000,
        }
    }
    fn generate(&self, seed: u64, idx: u64, _tier: Tier) -> Scenario {
        let mut rng = Rng::new(seed ^ 0xC07 ^ idx.wrapping_mul(0x9E37_79B9_7F4A_7C15));
        let mut sc = Scenario::new("c07");
        sc.entropy_seed = rng.next();
        sc.tokio_seed = rng.next();
        let v6 = rng.chance(1, 3);
        sc.net = swarm_net(&mut rng, &[0, 0, 5, 50], false);
        let mut real = default_real(v6, 0, &mut rng);
        real.read_only = false;
        let node = real.addr;
        sc.reals.push(real);
        sc.at(0, Op::Start { node: 0 });
        let mut tids = Tids(0);
        let pid = rng.id20();
        let n_ih = *rng.pick(&[1usize, 1, 2, 5, 20, 60]);
        let ihs: Vec<[u8; 20]> = (0..n_ih).map(|_| rng.id20()).collect();
        // announcer identities: (source address, family)
        let mixed = rng.chance(1, 3);
        let mut next_ip = 0u32;
        let mut new_src = |rng: &mut Rng| -> SocketAddr {
            next_ip += 1;
            let fam6 = if mixed { rng.chance(1, 2) } else { v6 };
            addr(fam6, 2, next_ip, 20_000 + rng.below(100) as u16)
        };
        // announced so far: (src, port, ih) for renewals
        let mut known: Vec<(SocketAddr, Option<u16>, [u8; 20])> = Vec::new();
        let mut t = 1_000u64;
        let big = rng.chance(1, 4); // drive the store to its capacity
        let n_phases = rng.range(3, 14);
        let mut announce_times: Vec<u64> = Vec::new();
        let reader4 = addr(false, 2, 60_000, 30_000);
        let reader6 = addr(true, 2, 60_000, 30_000);
        let read = |sc: &mut Scenario, tids: &mut Tids, t: u64, ih: &[u8; 20], rng: &mut Rng| {
            // read back from both families (the node answers whoever the transport delivers)
            for r in [reader4, reader6] {
                if r.is_ipv6() == v6 || mixed || rng.chance(1, 4) {
                    step(sc, When::At(t), Op::Probe { from: r, to: node, msg: ProbeMsg::Bytes(get_peers(&tids.next(), &pid, ih, None)), timeout_ms: 5_000 });
                }
            }
        };
        for phase in 0..n_phases {
            match rng.below(if big { 8 } else { 6 }) {
                0 | 1 => {
                    // a few new announces
                    for _ in 0..rng.range(1, 12) {
                        let src = new_src(&mut rng);
                        let port = if rng.chance(1, 2) { Some(rng.range(1, 65535) as u16) } else { None };
                        let ih = *rng.pick(&ihs);
                        announce_chain(&mut sc, &mut tids, When::At(t), src, node, &pid, &ih, port);
                        known.push((src, port, ih));
                        announce_times.push(t);
                        t += rng.range(0, 2_000);
                    }
                }
                2 => {
                    // re-announce existing pairs (renewal), possibly the same pair twice in a row
                    for _ in 0..rng.range(1, 8) {
                        if known.is_empty() {
                            break;
                        }
                        let (src, port, ih) = *rng.pick(&known);
                        announce_chain(&mut sc, &mut tids, When::At(t), src, node, &pid, &ih, port);
                        announce_times.push(t);
                        t += rng.range(0, 2_000);
                    }
                }
                3 => {
                    // same ip, same info-hash, different port = different pair; same pair under another info-hash
                    if let Some((src, _, ih)) = known.last().copied() {
                        let p2 = Some(rng.range(1, 65535) as u16);
                        announce_chain(&mut sc, &mut tids, When::At(t), src, node, &pid, &ih, p2);
                        known.push((src, p2, ih));
                        let ih2 = *rng.pick(&ihs);
                        announce_chain(&mut sc, &mut tids, When::At(t + 10), src, node, &pid, &ih2, p2);
                        known.push((src, p2, ih2));
                        announce_times.push(t);
                        t += 100;
                    }
                }
                4 | 5 => {
                    // time passes: seconds .. a day, biased to 24 h after some earlier announce
                    let gap = match rng.below(5) {
                        0 => rng.range(1_000, 600_000),
                        1 => rng.range(3_600_000, 12 * 3_600_000),
                        2 => rng.range(20 * 3_600_000, 30 * 3_600_000),
                        _ => {
                            if let Some(&ta) = announce_times.get(rng.below(announce_times.len().max(1) as u64) as usize) {
                                let target = ta + DAY_MS;
                                let jitter = *rng.pick(&[-2_000i64, -200, -1, 0, 1, 200, 2_000, 60_000]);
                                let tt = (target as i64 + jitter).max(t as i64 + 1) as u64;
                                tt - t
                            } else {
                                rng.range(1_000, 3_600_000)
                            }
                        }
                    };
                    // keep most runs below ~2 virtual days (cost is ~2 s of wall time per day)
                    let gap = if t > 30 * 3_600_000 && gap > 600_000 && !rng.chance(1, 4) { rng.range(1_000, 600_000) } else { gap };
                    t += gap;
                }
                _ => {
                    // burst towards the capacity: 499 / 500 / 501+ pairs
                    let target = *rng.pick(&[480usize, 499, 500, 501, 520]);
                    let have = known.len();
                    for _ in have..target {
                        let src = new_src(&mut rng);
                        let port = if rng.chance(1, 2) { Some(rng.range(1, 65535) as u16) } else { None };
                        let ih = *rng.pick(&ihs);
                        announce_chain(&mut sc, &mut tids, When::At(t), src, node, &pid, &ih, port);
                        known.push((src, port, ih));
                        announce_times.push(t);
                        t += rng.range(0, 40);
                    }
                    t += 2_000;
                    // at the limit: renew an existing pair and try a brand-new one
                    if let Some((src, port, ih)) = known.first().copied() {
                        announce_chain(&mut sc, &mut tids, When::At(t), src, node, &pid, &ih, port);
                    }
                    let src = new_src(&mut rng);
                    let ih = *rng.pick(&ihs);
                    announce_chain(&mut sc, &mut tids, When::At(t + 500), src, node, &pid, &ih, None);
                    known.push((src, None, ih));
                    t += 2_000;
                }
            }
            // announces that must be refused (garbage / wrong-length / foreign token): for new pairs and
            // for pairs that are already stored (a refused re-announce must not restart their 24 h)
            if rng.chance(1, 3) {
                for _ in 0..rng.range(1, 4) {
                    let (src, port, ih) = if !known.is_empty() && rng.chance(1, 2) {
                        *rng.pick(&known)
                    } else {
                        (new_src(&mut rng), Some(rng.range(1, 65535) as u16), *rng.pick(&ihs))
                    };
                    let token = match rng.below(3) {
                        0 => TokenSpec::Bytes(rng.bytes(20)),
                        1 => TokenSpec::Bytes(rng.bytes_in(0, 19)),
                        _ => TokenSpec::Bytes(vec![]),
                    };
                    step(&mut sc, When::At(t), Op::Probe { from: src, to: node, msg: ProbeMsg::Announce { tid: tids.next(), id: pid, ih, port, token }, timeout_ms: 5_000 });
                    t += rng.range(0, 500);
                }
            }
            // reads after every phase
            t += sc.net.lat_max_ms * 4 + 200;
            for ih in ihs.iter().take(if phase % 3 == 0 { ihs.len() } else { 3 }) {
                read(&mut sc, &mut tids, t, ih, &mut rng);
            }
            t += 500;
        }
        sc.end_ms = t + 60_000;
        sc
    }

    fn check(&self, sc: &Scenario, run: &RunLog) -> Verdict {
        let mut v = Verdict::default();
        let node = sc.reals[0].addr;
        let (pairs, _orphans, _open) = pair_replies(&run.log, node);
        // model: (ih, contact) -> time of last acknowledged announce
        let mut model: BTreeMap<([u8; 20], SocketAddr), u64> = BTreeMap::new();
        let mut acks = 0u64;
        let mut reads = 0u64;
        let mut nonempty_reads = 0u64;
        let mut max_live = 0usize;
        for (q, r) in &pairs {
            let now = r.t;
            let qm = q.msg.as_ref().unwrap();
            let rm = r.msg.as_ref().unwrap();
            let a = match qm.args() {
                Some(a) => a,
                None => continue,
            };
            // live set at this instant (at exactly 24 h either side is accepted: `edge`)
            let live: BTreeSet<([u8; 20], SocketAddr)> = model.iter().filter(|(_, t0)| now - **t0 < DAY_MS).map(|(k, _)| *k).collect();
            let edge: BTreeSet<([u8; 20], SocketAddr)> = model.iter().filter(|(_, t0)| { let age = now - **t0; age >= DAY_MS - 1 && age <= DAY_MS + 1 }).map(|(k, _)| *k).collect();
            max_live = max_live.max(live.len());
            match qm.qname() {
                Some("announce_peer") => {
                    let ih = match a.get("info_hash").and_then(id20) {
                        Some(x) => x,
                        None => continue,
                    };
                    let implied = a.get("implied_port").and_then(|x| x.as_int()).unwrap_or(0) != 0;
                    let port = a.get("port").and_then(|x| x.as_int()).unwrap_or(0) as u16;
                    let contact = if implied { q.src } else { SocketAddr::new(q.src.ip(), port) };
                    let key = (ih, contact);
                    let is_live = live.contains(&key);
                    let definitely_live = is_live && !edge.contains(&key);
                    let live_lo = live.iter().filter(|k| !edge.contains(*k)).count();
                    match &rm.kind {
                        Kind::Response { .. } => {
                            acks += 1;
                            // acknowledged: needs room (or renewal)
                            if !is_live && live_lo >= CAP {
                                v.violate("C07", "acked_beyond_capacity", now, format!("new pair {contact} acknowledged although {live_lo} pairs are live"));
                            }
                            if is_live {
                                v.hit("renewal");
                            }
                            model.insert(key, now);
                        }
                        Kind::Error { code: 202, .. } => {
                            v.hit("refused_202");
                            if definitely_live {
                                v.violate("C07", "renewal_refused", now, format!("re-announce of live pair {contact} refused with 202"));
                            } else if !is_live && live.len() < CAP {
                                v.violate("C07", "refused_with_room", now, format!("new pair {contact} refused with 202 although only {} pairs are live", live.len()));
                            }
                        }
                        Kind::Error { code: 203, .. } => {
                            // refused for its token: nothing may change (checked by the following reads)
                            v.hit("refused_203");
                        }
                        Kind::Error { code, .. } => {
                            v.hit("unexpected_error_reply");
                            let _ = code;
                        }
                        _ => {}
                    }
                }
                Some("get_peers") => {
                    let ih = match a.get("info_hash").and_then(id20) {
                        Some(x) => x,
                        None => continue,
                    };
                    let vals = match rm.resp() {
                        Some(r) => r.get("values").and_then(parse_values).unwrap_or_default(),
                        None => continue,
                    };
                    reads += 1;
                    if !vals.is_empty() {
                        nonempty_reads += 1;
                    }
                    let fam6 = q.src.is_ipv6();
                    let want: BTreeSet<SocketAddr> = live.iter().filter(|(h, c)| *h == ih && c.is_ipv6() == fam6).map(|(_, c)| *c).collect();
                    let soft: BTreeSet<SocketAddr> = edge.iter().filter(|(h, _)| *h == ih).map(|(_, c)| *c).collect();
                    let got: BTreeSet<SocketAddr> = vals.iter().copied().collect();
                    if got.len() != vals.len() {
                        v.violate("C07", "values_duplicate", now, format!("get_peers reply lists {} values, {} distinct", vals.len(), got.len()));
                    }
                    for c in want.difference(&got) {
                        if !soft.contains(c) {
                            v.violate("C07", "values_missing", now, format!("live pair {c} (announced {} ms ago) missing from get_peers reply to {}", now - model[&(ih, *c)], q.src));
                            break;
                        }
                    }
                    for c in got.difference(&want) {
                        if soft.contains(c) {
                            continue;
                        }
                        let why = match model.get(&(ih, *c)) {
                            Some(t0) => format!("expired: announced {} ms ago", now - t0),
                            None if c.is_ipv6() != fam6 => "wrong address family".to_string(),
                            None => "never announced for this info-hash".to_string(),
                        };
                        v.violate("C07", "values_extra", now, format!("get_peers reply to {} lists {c} ({why})", q.src));
                        break;
                    }
                    if want.len() > 100 {
                        v.hit("read_over_100_peers");
                    }
                }
                _ => {}
            }
            // expiry reach
            if model.values().any(|t0| now - *t0 >= DAY_MS) {
                v.hit("some_pair_expired");
            }
        }
        if max_live >= CAP {
            v.hit("store_reached_500");
        }
        if sc.steps.iter().any(|s| matches!(&s.op, Op::Probe { from, .. } if from.is_ipv6() != node.is_ipv6())) {
            v.hit("both_families");
        }
        v.nontrivial = acks > 0 && nonempty_reads > 0;
        v.sample = json!({"announces_acked": acks, "reads": reads, "nonempty_reads": nonempty_reads, "max_live_pairs": max_live, "virtual_hours": run.end_ms / 3_600_000, "steps": sc.steps.len()});
        v
    }
    fn rule(&self) -> &'static str {
        "one real serving node; probes from up to 500+ source addresses (one or both families) announce new and repeated pairs (explicit/implied port, 1..60 info-hashes), each with a fresh valid token (plus, in one phase of three, announces with garbage / short / empty tokens for new and for already stored pairs, which must be refused and change nothing), and read back with get_peers, over 0..4 virtual days with gaps biased to 24 h +- {1 ms, 200 ms, 2 s} after an announce and bursts to 499/500/501 pairs; every reply is compared with a reference model map[(info-hash, contact)] = last acknowledged announce time. non-trivial = at least one acknowledged announce and one non-empty read; distinct = distinct order digests"
    }
    fn assumptions(&self) -> Vec<&'static str> {
        vec!["no message faults and no socket stalls in this family (the model needs exact handling instants = reply send times)", "at exactly 24 h +- 1 ms either answer is accepted"]
    }
    fn required_reach(&self) -> Vec<&'static str> {
        vec!["renewal", "refused_202", "refused_203", "some_pair_expired", "store_reached_500", "both_families", "read_over_100_peers"]
    }
}

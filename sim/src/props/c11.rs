//! C11 — over hours, responsive contacts are kept fresh and silent ones are purged.

use super::c10::{run_model, MIN15};
use super::common::*;
use super::{Property, Tier, Verdict};
use crate::entropy::Rng;
use crate::exec::{Op, ProbeMsg, RunLog, Scenario};
use crate::stubs::{Answer, NodeRef, NodesMode, StubCfg};
use serde_json::json;
use std::collections::{BTreeMap, BTreeSet};
use std::net::SocketAddr;

pub struct C11;

const MIN20: u64 = 20 * 60_000;
const MIN5: u64 = 5 * 60_000;

impl Property for C11 {
    fn id(&self) -> &'static str {
        "C11"
    }
    fn runs(&self, tier: Tier) -> u64 {
        match tier {
            Tier::Quick => 200,
            Tier::Thorough => 6_000,
        }
    }
    fn generate(&self, seed: u64, idx: u64, tier: Tier) -> Scenario {
        let mut rng = Rng::new(seed ^ 0xC11 ^ idx.wrapping_mul(0x9E37_79B9_7F4A_7C15));
        let mut sc = Scenario::new("c11");
        sc.entropy_seed = rng.next();
        sc.tokio_seed = rng.next();
        let v6 = rng.chance(1, 4);
        sc.world.v6 = v6;
        sc.net = swarm_net(&mut rng, &[0, 5, 50, 200], false);
        sc.net.check_table_shape = true;
        let mut real = default_real(v6, 0, &mut rng);
        real.read_only = rng.chance(1, 2);
        let mut keeper_from = usize::MAX;
        let own = real.id.unwrap();
        let node = real.addr;
        let big = rng.chance(1, 5); // 10..16 contacts: the "no re-bootstrap" regime
        // half of those: 4..6 contacts of a 14..18-contact table fall silent together, so that a
        // whole group of dead questionable entries competes with live ones for the refresh pings
        let starve = big && rng.chance(1, 2);
        let n = if starve { rng.range(16, 20) } else if big { rng.range(10, 16) } else { rng.range(1, 8) } as usize;
        let hours = match tier {
            Tier::Quick => *rng.pick(&[1u64, 1, 2, 3]),
            Tier::Thorough => *rng.pick(&[1u64, 2, 4, 6]),
        };
        let end = hours * 3_600_000;
        let addrs: Vec<SocketAddr> = (0..n).map(|i| stub_addr(v6, i)).collect();
        // ids: spread over prefix depths so that no bucket fills in the big variant
        let ids: Vec<[u8; 20]> = (0..n).map(|i| if big { id_with_lcp(&own, i / 2, &mut rng) } else { rng.id20() }).collect();
        let closest_naming = rng.chance(1, 2);
        let mut silent_at: BTreeMap<usize, u64> = BTreeMap::new();
        let group_t = rng.range(20 * 60_000, end - 40 * 60_000);
        let mut group: BTreeSet<usize> = BTreeSet::new();
        if starve {
            // the last 10..11 contacts keep themselves good by pinging the node every few minutes
            // (so the node always has >= 10 good contacts and never re-bootstraps); of the others,
            // 4..6 fall silent together and the remaining 2..4 just answer
            real.read_only = false;
            keeper_from = n - rng.range(10, 11) as usize;
            let g = rng.range(4, 6).min(keeper_from as u64 - 2) as usize;
            while group.len() < g {
                group.insert(rng.range(1, keeper_from as u64 - 1) as usize);
            }
        }
        for i in 0..n {
            let mut s = StubCfg::honest(addrs[i], ids[i]);
            // the first contact always answers (the node needs somebody to bootstrap from)
            if starve {
                if group.contains(&i) {
                    s.answer = Answer::SilentFrom(group_t);
                    silent_at.insert(i, group_t);
                }
            } else if i > 0 && rng.chance(2, 5) {
                let t = if rng.chance(1, 6) { 0 } else { rng.range(1_000, end - 40 * 60_000) };
                s.answer = if t == 0 { Answer::Never } else { Answer::SilentFrom(t) };
                silent_at.insert(i, t);
            }
            if !closest_naming {
                let mut named = Vec::new();
                for j in 0..n {
                    if j != i && rng.chance(1, 2) {
                        named.push(NodeRef { id: ids[j], addr: addrs[j] });
                    }
                }
                s.nodes = if named.is_empty() { NodesMode::Empty } else { NodesMode::Fixed(named) };
            }
            sc.world.stubs.push(s);
        }
        // single bootstrap contact versus all contacts listed
        if rng.chance(1, 2) {
            real.nodes.push(addrs[0]);
        } else {
            real.nodes = addrs.clone();
        }
        sc.reals.push(real);
        sc.at(0, Op::Start { node: 0 });
        if starve {
            let mut tid_no = 0u32;
            for i in keeper_from..n {
                let mut t = 30_000 + rng.range(0, 200_000);
                while t < end {
                    tid_no += 1;
                    sc.at(t, Op::Raw { from: addrs[i], to: node, bytes: ping(&[b'K', (tid_no >> 8) as u8, tid_no as u8], &ids[i]) });
                    t += rng.range(240_000, 400_000);
                }
            }
            // one contact is advertised with port 0 (by the first stub's answers): every ping to it
            // fails to send (EINVAL) while everything else works; it counts among the contacts that
            // can be questionable
            let port0 = rng.chance(1, 2);
            if port0 {
                let r = NodeRef { id: id_with_lcp(&own, 30, &mut rng), addr: SocketAddr::new(addr(v6, 5, 1, 1).ip(), 0) };
                sc.world.stubs[0].nodes = match sc.world.stubs[0].nodes.clone() {
                    NodesMode::Fixed(mut l) => {
                        l.push(r);
                        NodesMode::Fixed(l)
                    }
                    _ => NodesMode::ClosestPlus(vec![r]),
                };
                sc.params.insert("port0".into(), 1);
            }
            sc.params.insert("k_eff".into(), keeper_from as i64 + port0 as i64);
        }
        let searches = !starve && rng.chance(1, 2);
        if searches {
            for _ in 0..rng.range(1, 6) {
                sc.at(rng.range(5_000, end), Op::Search { node: 0, ih: rng.id20(), announce: rng.chance(1, 2) });
            }
        }
        let period = if starve { 2_300 } else { *rng.pick(&[2_300u64, 3_700, 4_900]) };
        sc.at(500, Op::SampleEvery { node: 0, period_ms: period, count: (end / period) as u32, table: false });
        let probe = probe_addr(v6, 0, 20_000);
        let pid = rng.id20();
        let mut t = 30_000;
        let mut k = 0u32;
        while t < end {
            k += 1;
            let tid = [b'F', (k >> 8) as u8, k as u8];
            let target = if rng.chance(1, 2) { own } else { rng.id20() };
            sc.at(t, Op::Probe { from: probe, to: node, msg: ProbeMsg::Bytes(find_node(&tid, &pid, &target, None)), timeout_ms: 0 });
            t += 61_000;
        }
        sc.end_ms = end + 5_000;
        sc.params.insert("hours".into(), hours as i64);
        sc.params.insert("period".into(), period as i64);
        sc.params.insert("big".into(), big as i64);
        sc.params.insert("searches".into(), searches as i64);
        sc.params.insert("starve".into(), starve as i64);
        sc
    }

    fn check(&self, sc: &Scenario, run: &RunLog) -> Verdict {
        let mut v = Verdict::default();
        let period = sc.param("period") as u64;
        let n = sc.world.stubs.len() as u64;
        let rtt = 2 * sc.net.lat_max_ms;
        // statement: 30 s for 1..8 contacts; outside that range the mechanism gives 6 s per 4 contacts
        // (a contact is skipped by the refresh while the node queried it less than 30 s ago, which only
        // searches do to a good contact; without searches the mechanism's bound is one 6 s round per
        // 4 contacts ahead of it, plus the sampling granularity)
        let fresh_bound = if n <= 8 { 30_000 } else if sc.param("starve") != 0 { 6_000 * ((sc.param("k_eff") as u64 + 3) / 4) + period } else if sc.param("searches") == 0 { 6_000 * ((n + 3) / 4) + period } else { 6_000 * ((n + 3) / 4) + 30_000 } + rtt;
        let always: BTreeSet<SocketAddr> = sc.world.stubs.iter().filter(|s| s.answer == Answer::Always).map(|s| s.addr).collect();
        let silent: BTreeMap<SocketAddr, u64> = sc
            .world
            .stubs
            .iter()
            .filter_map(|s| match s.answer {
                Answer::Never => Some((s.addr, 0)),
                Answer::SilentFrom(t) => Some((s.addr, t)),
                _ => None,
            })
            .collect();
        // per always-answering contact: first time seen, start of the current not-good stretch
        let mut seen: BTreeMap<SocketAddr, u64> = BTreeMap::new();
        let mut notgood_since: BTreeMap<SocketAddr, u64> = BTreeMap::new();
        let mut longest_notgood = 0u64;
        let mut findings: Vec<(&'static str, u64, String)> = Vec::new();
        let mut samples = 0u64;
        let mut questionable_then_good = 0u64;
        let mut purged = 0u64;
        let mut absent_streak: BTreeMap<SocketAddr, u32> = BTreeMap::new();
        let mut transient_absences = 0u64;
        let findings_cell = std::cell::RefCell::new(&mut findings);
        run_model(
            sc,
            run,
            |ms| {
                samples += 1;
                let t = ms.t;
                for a in &always {
                    let rep_good = ms.good.contains(a);
                    let rep_q = ms.questionable.contains(a);
                    if rep_good || rep_q {
                        seen.entry(*a).or_insert(t);
                    }
                    if let Some(t0) = seen.get(a) {
                        // Two queries in flight to a questionable contact (refresh + re-bootstrap ping
                        // within one RTT) make it "two unanswered queries while not good" until the
                        // first answer lands — C10 says such a contact is not reported until it answers.
                        // That transient (< 1 RTT) is not a loss: a contact is lost when it is missing
                        // at two consecutive samples (sampling period > RTT).
                        if !rep_good && !rep_q {
                            let c = absent_streak.entry(*a).or_insert(0u32);
                            *c += 1;
                            if *c >= 2 {
                                findings_cell.borrow_mut().push(("responsive_contact_lost", t, format!("{a} always answers, was in the contacts since {t0} ms, but is reported neither good nor questionable at two consecutive samples up to {t} ms")));
                            } else {
                                transient_absences += 1;
                            }
                        } else {
                            absent_streak.remove(a);
                        }
                        if !rep_good {
                            let since = *notgood_since.entry(*a).or_insert(t);
                            longest_notgood = longest_notgood.max(t - since);
                            if t - since > fresh_bound {
                                findings_cell.borrow_mut().push(("responsive_contact_stale", t, format!("{a} always answers but has not been reported good from {since} ms to {t} ms (bound {fresh_bound} ms)")));
                            }
                        } else if notgood_since.remove(a).is_some() {
                            questionable_then_good += 1;
                        }
                    }
                }
                for (a, ts) in &silent {
                    if let Some(c) = ms.state.get(a) {
                        if !c.known && c.ever_seen.is_none() {
                            continue;
                        }
                        let last_answer = c.last_answer.unwrap_or(0).max(if c.last_answer.is_some() { 0 } else { c.ever_seen.unwrap_or(0) });
                        let deadline = (last_answer + MIN20).max(c.last_named.map(|x| x + MIN5).unwrap_or(0)).max(*ts) + rtt + period;
                        if t > deadline {
                            if ms.good.contains(a) || ms.questionable.contains(a) {
                                findings_cell.borrow_mut().push(("silent_contact_lingers", t, format!("{a} is silent since {ts} ms (last accepted answer {:?}, last named {:?}) but is still in the contacts at {t} ms", c.last_answer, c.last_named)));
                            } else {
                                purged += 1;
                            }
                        }
                    }
                }
            },
            |t, named, st| {
                for a in named {
                    if let (Some(ts), Some(c)) = (silent.get(a), st.get(a)) {
                        let last_answer = c.last_answer.unwrap_or(c.ever_seen.unwrap_or(0));
                        let deadline = (last_answer + MIN20).max(c.last_named.map(|x| x + MIN5).unwrap_or(0)).max(*ts) + rtt;
                        if t > deadline {
                            findings_cell.borrow_mut().push(("silent_contact_offered", t, format!("find_node reply at {t} ms names {a}, silent since {ts} ms (last answer {:?}, last named {:?})", c.last_answer, c.last_named)));
                        }
                    }
                }
            },
        );
        drop(findings_cell);
        let mut once = BTreeSet::new();
        for (clause, t, d) in findings {
            if once.insert(clause) {
                v.violate("C11", clause, t, d);
            }
        }
        let _ = MIN15;
        if questionable_then_good > 0 {
            v.hit_n("turned_questionable_then_good_again", questionable_then_good);
        }
        if purged > 0 {
            v.hit("silent_contact_purged");
        }
        if transient_absences > 0 {
            v.hit_n("transient_absence_while_answers_in_flight", transient_absences);
        }
        if sc.param("big") != 0 {
            v.hit("more_than_8_contacts_variant");
        }
        if sc.param("starve") != 0 {
            v.hit("group_of_contacts_falls_silent_together");
        }
        if run.stats.get("fault_send_to_port_0_einval").copied().unwrap_or(0) > 0 {
            v.hit("refresh_ping_fails_to_send");
        }
        if sc.reals[0].nodes.len() == 1 && n > 1 {
            v.hit("single_bootstrap_contact");
        }
        if sc.param("hours") >= 3 {
            v.hit("three_hours_or_more");
        }
        v.nontrivial = samples > 100 && !seen.is_empty();
        v.sample = json!({"stubs": n, "always_answering": always.len(), "going_silent": silent.len(), "hours": sc.param("hours"), "samples": samples, "longest_not_good_ms": longest_notgood, "refreshes_observed": questionable_then_good});
        v
    }
    fn rule(&self) -> &'static str {
        "one real node (serving or read-only), 1..8 stub contacts (1 in 5 runs: 10..18 contacts spread over prefix depths so that no bucket fills; in half of those (16..20 contacts, serving node) 10..11 contacts keep themselves good by pinging the node, 4..6 of the others fall silent at the same instant, no searches run, and in half of these one contact is advertised with port 0 so that pings to it fail to send), loss-free, 1..6 virtual hours; each contact always answers or goes silent at a drawn time (or never answers); contacts name each other all the time or only by a drawn subset; single bootstrap contact or all listed; with and without interleaved searches; load_contacts sampled every 2.3..4.9 s, a find_node probe every 61 s. non-trivial = more than 100 samples and at least one always-answering contact admitted; distinct = distinct order digests"
    }
    fn assumptions(&self) -> Vec<&'static str> {
        vec!["the 30 s freshness bound is the statement's for 1..8 contacts; for the 10..18-contact variant it is 6 s per 4 contacts + 30 s (without searches: + one sampling period instead of the 30 s, since only a search makes the node query a good contact; in the group-silence variant only the contacts that do not ping the node can ever be questionable, and only those count), which is what the statement's mechanism gives outside its range", "a responsive contact counts as lost when it is missing at two consecutive samples (a single miss can be the sub-RTT state in which two pings are in flight, which C10 defines as not reported)", "silent-contact deadline = max(last accepted answer + 20 min, last naming + 5 min) plus one RTT and one sampling period"]
    }
    fn required_reach(&self) -> Vec<&'static str> {
        vec!["turned_questionable_then_good_again", "silent_contact_purged", "more_than_8_contacts_variant", "group_of_contacts_falls_silent_together", "refresh_ping_fails_to_send", "single_bootstrap_contact", "three_hours_or_more"]
    }
}

//! Per-property scenario generators and oracles.

use crate::exec::{run_scenario, RunLog, Scenario};
use crate::log::Violation;
use std::collections::BTreeMap;

pub mod common;
pub mod c01;
pub mod c02;
pub mod c03;
pub mod c04;
pub mod c05;
pub mod c06;
pub mod c07;
pub mod c08;
pub mod c09;
pub mod c10;
pub mod c11;
pub mod c12;
pub mod c14;
pub mod c15;
pub mod c16;
pub mod c17;
pub mod c18;
pub mod c19;
pub mod selfcheck;

#[derive(Clone, Copy, Debug, PartialEq, Eq)]
pub enum Tier {
    Quick,
    Thorough,
}

impl Tier {
    pub fn name(&self) -> &'static str {
        match self {
            Tier::Quick => "quick",
            Tier::Thorough => "thorough",
        }
    }
}

#[derive(Default)]
pub struct Verdict {
    pub violations: Vec<Violation>,
    /// the run met the property's non-triviality rule
    pub nontrivial: bool,
    /// the run could not be judged (premise not met, cap hit)
    pub inconclusive: bool,
    /// "rare condition hit" probes
    pub reach: BTreeMap<String, u64>,
    pub sample: serde_json::Value,
}

impl Verdict {
    pub fn hit(&mut self, k: &str) {
        *self.reach.entry(k.to_string()).or_insert(0) += 1;
    }
    pub fn hit_n(&mut self, k: &str, n: u64) {
        *self.reach.entry(k.to_string()).or_insert(0) += n;
    }
    pub fn violate(&mut self, property: &str, clause: &str, t: u64, detail: String) {
        self.violations.push(Violation {
            property: property.to_string(),
            clause: clause.to_string(),
            detail,
            t,
        });
    }
}

pub trait Property: Sync + Send {
    fn id(&self) -> &'static str;
    fn level(&self) -> &'static str {
        "exploration"
    }
    /// number of generated scenarios for the tier
    fn runs(&self, tier: Tier) -> u64;
    /// wall-clock budget for the whole batch, seconds
    fn wall_budget_s(&self, tier: Tier) -> u64 {
        match tier {
            Tier::Quick => 150,
            Tier::Thorough => 1500,
        }
    }
    fn generate(&self, seed: u64, idx: u64, tier: Tier) -> Scenario;
    fn run(&self, sc: &Scenario) -> Result<RunLog, String> {
        run_scenario(sc)
    }
    fn check(&self, sc: &Scenario, run: &RunLog) -> Verdict;
    /// single-fault variants of a fault-free base run (fault_enumeration properties)
    fn sweep(&self, _sc: &Scenario, _base: &RunLog, _tier: Tier) -> Vec<Scenario> {
        vec![]
    }
    fn rule(&self) -> &'static str;
    fn assumptions(&self) -> Vec<&'static str> {
        vec![]
    }
    /// reach probes that must be non-zero over a thorough batch
    fn required_reach(&self) -> Vec<&'static str> {
        vec![]
    }
}

pub fn all() -> Vec<Box<dyn Property>> {
    vec![Box::new(selfcheck::SelfCheck), Box::new(c18::C18), Box::new(c14::C14), Box::new(c15::C15), Box::new(c16::C16), Box::new(c08::C08), Box::new(c07::C07), Box::new(c06::C06), Box::new(c17::C17), Box::new(c05::C05), Box::new(c02::C02), Box::new(c04::C04), Box::new(c03::C03), Box::new(c19::C19), Box::new(c09::C09), Box::new(c10::C10), Box::new(c11::C11), Box::new(c12::C12), Box::new(c01::C01)]
}

pub fn by_id(id: &str) -> Option<Box<dyn Property>> {
    all().into_iter().find(|p| p.id() == id)
}

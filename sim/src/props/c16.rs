//! C16 — a search requested before bootstrap finishes is carried out, not dropped.

use super::common::*;
use super::{Property, Tier, Verdict};
use crate::entropy::Rng;
use crate::exec::{Op, RunLog, Scenario};
use crate::krpc::xor;
use crate::log::{ApiEv, Ev};
use crate::stubs::{Answer, StubCfg};
use serde_json::json;
use std::collections::{BTreeMap, BTreeSet};
use std::net::SocketAddr;

pub struct C16;

impl Property for C16 {
    fn id(&self) -> &'static str {
        "C16"
    }
    fn runs(&self, tier: Tier) -> u64 {
        match tier {
            Tier::Quick => 2_000,
            Tier::Thorough => 100_000,
        }
    }
    fn generate(&self, seed: u64, idx: u64, _tier: Tier) -> Scenario {
        let mut rng = Rng::new(seed ^ 0xC16 ^ idx.wrapping_mul(0x9E37_79B9_7F4A_7C15));
        let mut sc = Scenario::new("c16");
        sc.entropy_seed = rng.next();
        sc.tokio_seed = rng.next();
        let v6 = rng.chance(1, 3);
        sc.world.v6 = v6;
        // static, loss-free network; latency varies the bootstrap duration
        sc.net = swarm_net(&mut rng, &[0, 5, 50, 200, 400], false);
        let ih = rng.id20();
        // at most 9 answering stubs, so every stub names every other one and any search that
        // reaches one of them hears of (and, in its end-game, queries) all of them
        // (or 10..16: enough good contacts that the node never re-bootstraps, so nothing but the
        // first completion can release a queued search; peers then sit on the 8 stubs closest to
        // the info-hash, which every answer names)
        let big = rng.chance(1, 4);
        let n_ans = if big { rng.range(10, 16) } else { rng.range(1, 9) } as usize;
        let n_silent = rng.range(0, 4) as usize;
        let mut peer_no = 0u32;
        for i in 0..n_ans {
            let mut s = StubCfg::honest(stub_addr(v6, i), rng.id20());
            let k = rng.range(0, 3);
            let peers: Vec<SocketAddr> = (0..k)
                .map(|_| {
                    peer_no += 1;
                    addr(v6, 4, peer_no, 9000)
                })
                .collect();
            if !peers.is_empty() {
                s.peers.push((ih, peers));
            }
            sc.world.stubs.push(s);
        }
        if big {
            let mut order: Vec<usize> = (0..n_ans).collect();
            order.sort_by_key(|i| xor(&sc.world.stubs[*i].id, &ih));
            let far: Vec<usize> = order[8..].to_vec();
            for i in far {
                sc.world.stubs[i].peers.clear();
            }
            sc.params.insert("big".into(), 1);
        }
        // in one run of three nobody answers before t_up: the first bootstrap attempt(s) fail and the
        // node sits in its back-off pauses (2 s, 4 s, 8 s, ...) while searches are being issued
        if rng.chance(1, 3) {
            let t_up = rng.range(500, 25_000);
            for s in sc.world.stubs.iter_mut() {
                s.answer = Answer::SilentUntil(t_up);
            }
            sc.params.insert("t_up".into(), t_up as i64);
        }
        for i in 0..(if big { 0 } else { n_silent }) {
            // silent stubs are named by the others and slow the bootstrap down (0.5 s per bucket)
            let mut s = StubCfg::honest(stub_addr(v6, 100 + i), rng.id20());
            s.answer = Answer::Never;
            sc.world.stubs.push(s);
        }
        let mut real = default_real(v6, 0, &mut rng);
        real.read_only = rng.chance(1, 2);
        if rng.chance(1, 2) {
            real.announce_port = Some(rng.range(1024, 65535) as u16);
        }
        let n_contacts = rng.range(1, 3.min(n_ans as u64)) as usize;
        for i in 0..n_contacts {
            real.nodes.push(sc.world.stubs[i].addr);
        }
        // optionally one dead contact as well: lengthens the initial round to 2.5 s
        if rng.chance(1, 3) {
            real.nodes.push(stub_addr(v6, 200));
        }
        sc.reals.push(real);
        let start = rng.range(0, 3) * 1000;
        sc.at(start, Op::Start { node: 0 });
        let boot = sc.at(start, Op::Bootstrapped { node: 0 });
        // early searches at drawn times relative to start
        let n_early = rng.range(1, 4);
        for _ in 0..n_early {
            let dt = match rng.below(5) {
                0 => 0,
                1 => 1,
                2 => rng.range(0, sc.net.lat_max_ms * 2 + 1),
                3 => rng.range(0, 3_000),
                _ => rng.range(0, 40_000),
            };
            let announce = rng.chance(1, 3);
            sc.at(start + dt, Op::Search { node: 0, ih, announce });
        }
        // an application polling the node's state while it bootstraps (status display): API calls
        // land in the very loop turns in which the bootstrap completes
        if rng.chance(1, 3) {
            let period = *rng.pick(&[1u64, 1, 2, 5]);
            let span = sc.param("t_up") as u64 + 6_000 + 20 * sc.net.lat_max_ms;
            sc.at(start, Op::SampleEvery { node: 0, period_ms: period, count: (span / period).min(4_000) as u32, table: false });
            sc.params.insert("polling".into(), 1);
        }
        // a busy event loop: the node serves a stream of pings through a slow socket (each reply may
        // stall up to 300 ms) while it bootstraps, an application polls its state and issues a search
        // every 25 ms. Commands pile up behind the stalled loop, so state queries and searches are
        // served in the loop turns right after the worker has finished - before the loop notices.
        if !big && rng.chance(1, 12) {
            sc.reals[0].read_only = false;
            sc.net.stall_ppm = 300_000;
            sc.net.stall_max_ms = 300;
            let from = start + if sc.param("t_up") > 0 { sc.param("t_up") as u64 } else { 0 };
            let span = 2_000 + 8 * sc.net.lat_max_ms;
            let pa = probe_addr(v6, 0, 20_000);
            let pid = rng.id20();
            let mut k = 0u32;
            let mut t = from;
            while t < from + span {
                k += 1;
                sc.at(t, Op::Probe { from: pa, to: sc.reals[0].addr, msg: crate::exec::ProbeMsg::Bytes(ping(&[b'b', (k >> 8) as u8, k as u8], &pid)), timeout_ms: 0 });
                if k % 8 == 0 {
                    sc.at(t, Op::Search { node: 0, ih, announce: false });
                }
                if k % 3 == 0 {
                    sc.at(t, Op::Sample { node: 0, table: false });
                }
                t += 7;
            }
            sc.params.insert("busy_loop".into(), 1);
        }
        // late state samples: tell "never bootstrapped" (not this property) from "search never released"
        sc.at(100_000, Op::Sample { node: 0, table: false });
        sc.at(160_000, Op::Sample { node: 0, table: false });
        // control: the same search right after bootstrapped() resolves
        let ctl = sc.after(boot, 0, Op::Search { node: 0, ih, announce: false });
        sc.params.insert("boot_step".into(), boot as i64);
        sc.params.insert("control_step".into(), ctl as i64);
        sc.params.insert("peers".into(), peer_no as i64);
        sc.end_ms = 170_000;
        sc
    }

    fn check(&self, sc: &Scenario, run: &RunLog) -> Verdict {
        let mut v = Verdict::default();
        let boot_step = sc.param("boot_step") as usize;
        let ctl_step = sc.param("control_step") as usize;
        let mut boot_done: Option<u64> = None;
        let mut start: BTreeMap<usize, u64> = BTreeMap::new();
        let mut end: BTreeMap<usize, u64> = BTreeMap::new();
        let mut items: BTreeMap<usize, BTreeSet<SocketAddr>> = BTreeMap::new();
        for e in &run.log {
            if let Ev::Api { t, step, ev } = e {
                match ev {
                    ApiEv::BootDone { ok: true } if *step == boot_step => boot_done = Some(*t),
                    ApiEv::SearchStart { .. } => {
                        start.insert(*step, *t);
                        items.entry(*step).or_default();
                    }
                    ApiEv::SearchItem { addr } => {
                        items.entry(*step).or_default().insert(*addr);
                    }
                    ApiEv::SearchEnd => {
                        end.insert(*step, *t);
                    }
                    _ => {}
                }
            }
        }
        // bootstrap state as reported by get_state() late in the run
        let mut late_boot: Vec<(u64, bool)> = Vec::new();
        for e in &run.log {
            if let Ev::Api { t, ev: ApiEv::Sample { state: Some(st), .. }, .. } = e {
                if *t >= 100_000 {
                    late_boot.push((*t, st.1));
                }
            }
        }
        let settled = late_boot.len() >= 2 && late_boot.iter().all(|(_, b)| *b);
        if settled {
            // the node reports itself bootstrapped from 100 s on: whatever was queued must have been
            // carried out long before the end of the run (a search lasts 1.5 s per node heard of + 3 s)
            for (step, t0) in &start {
                if *t0 < 50_000 && !end.contains_key(step) && run.end_ms >= 160_000 {
                    v.violate("C16", "early_search_never_ends", run.end_ms, format!("search issued at {t0} ms has not ended by {} ms although the node has reported itself bootstrapped since 100000 ms at the latest", run.end_ms));
                }
            }
            if !v.violations.is_empty() {
                return v;
            }
        }
        let (boot_done, ctl_end) = match (boot_done, end.get(&ctl_step)) {
            (Some(b), Some(c)) => (b, *c),
            _ => {
                v.inconclusive = true;
                return v;
            }
        };
        let _ = ctl_end;
        let control = items.get(&ctl_step).cloned().unwrap_or_default();
        let mut early = 0;
        for (step, t0) in &start {
            if *step == ctl_step {
                continue;
            }
            if *t0 >= boot_done {
                v.hit("search_after_bootstrap");
                continue;
            }
            early += 1;
            if *t0 == start.values().min().copied().unwrap_or(0) {
                v.hit("search_before_first_datagram");
            }
            let got = items.get(step).cloned().unwrap_or_default();
            match end.get(step) {
                None => v.violate("C16", "early_search_never_ends", run.end_ms, format!("search issued at {t0} ms (bootstrap completed at {boot_done} ms) has not ended by {} ms", run.end_ms)),
                Some(te) => {
                    // (with a stalling socket answers are read late and time out: result sets are no
                    // longer schedule-independent, so busy-loop runs are judged for termination only)
                    if got != control && sc.param("busy_loop") == 0 {
                        let early_end = if *te < boot_done { format!(" and ended at {te} ms, before bootstrap completed") } else { String::new() };
                        v.violate("C16", "early_search_differs", *te, format!("search issued at {t0} ms (bootstrap completed at {boot_done} ms){early_end} yielded {:?}; the same search right after bootstrap yields {:?}", got, control));
                    }
                }
            }
        }
        v.nontrivial = early > 0 && !control.is_empty();
        if early > 1 {
            v.hit("several_early_searches");
        }
        if boot_done > start.values().min().copied().unwrap_or(0) + 2_000 {
            v.hit("slow_bootstrap");
        }
        if sc.param("polling") != 0 {
            v.hit("state_polled_during_bootstrap");
        }
        if sc.param("busy_loop") != 0 {
            v.hit("busy_event_loop");
        }
        if sc.param("big") != 0 {
            v.hit("no_rebootstrap_network");
        }
        if sc.param("t_up") > 2_500 && early > 0 {
            v.hit("early_search_while_bootstrap_attempts_fail");
        }
        v.sample = json!({"stubs": sc.world.stubs.len(), "contacts": sc.reals[0].nodes.len(), "peers_in_network": sc.param("peers"), "bootstrap_done_ms": boot_done, "early_searches": early, "control_peers": control.len(),
            "searches": start.iter().map(|(s, t)| json!({"step": s, "issued_ms": t, "ended_ms": end.get(s), "peers": items.get(s).map(|x| x.len())})).collect::<Vec<_>>()});
        v
    }
    fn rule(&self) -> &'static str {
        "static loss-free network of 1..9 answering stubs (each naming all others) holding 0..3 unique peers each plus 0..4 silent stubs, or (1 run in 4) 10..16 answering stubs so that the node never re-bootstraps, peers on the 8 closest to the info-hash; in a third of the runs an application polls get_state/load_contacts/local_addr every 1..5 ms while the node bootstraps; a fresh real node with 1..3 contacts (+ optionally a dead one); in one run of three every contact is silent until a drawn instant (0.5..25 s), so the first bootstrap attempts fail and searches fall into the back-off pauses; 1..4 searches issued 0 ms .. 40 s after start (with/without announce); 1 run in 12: a busy event loop (pings answered through a socket that stalls up to 300 ms, state polled every 21 ms and a search issued every 56 ms while the node bootstraps; judged for termination only); control = same search issued when bootstrapped() resolves. non-trivial = at least one search issued before bootstrap completion and the control search yields peers; distinct = distinct order digests"
    }
    fn assumptions(&self) -> Vec<&'static str> {
        vec!["peer sets are compared as sets; the network is static and loss-free, as the property's comparison requires"]
    }
    fn required_reach(&self) -> Vec<&'static str> {
        vec!["search_before_first_datagram", "several_early_searches", "slow_bootstrap", "search_after_bootstrap", "early_search_while_bootstrap_attempts_fail", "state_polled_during_bootstrap", "no_rebootstrap_network", "busy_event_loop"]
    }
}

//! C02 — a search reaches the 8 closest nodes, announces to them, yields every peer found.

use super::common::*;
use super::{Property, Tier, Verdict};
use crate::entropy::Rng;
use crate::exec::{Consume, delivers, sends, Op, RunLog, Scenario};
use crate::krpc::{id20, parse_values, xor};
use crate::log::{ApiEv, Ev};
use crate::stubs::StubCfg;
use serde_json::json;
use std::collections::{BTreeMap, BTreeSet};
use std::net::SocketAddr;

pub struct C02;

impl Property for C02 {
    fn id(&self) -> &'static str {
        "C02"
    }
    fn runs(&self, tier: Tier) -> u64 {
        match tier {
            Tier::Quick => 1_500,
            Tier::Thorough => 60_000,
        }
    }
    fn generate(&self, seed: u64, idx: u64, tier: Tier) -> Scenario {
        let mut rng = Rng::new(seed ^ 0xC02 ^ idx.wrapping_mul(0x9E37_79B9_7F4A_7C15));
        let mut sc = Scenario::new("c02");
        sc.entropy_seed = rng.next();
        sc.tokio_seed = rng.next();
        let v6 = rng.chance(1, 3);
        sc.world.v6 = v6;
        sc.world.include_self = rng.chance(1, 2);
        // premise: every answer arrives within one second: one-way latency <= 450 ms
        sc.net = swarm_net(&mut rng, &[0, 5, 50, 200, 450], false);
        let mut real = default_real(v6, 0, &mut rng);
        real.read_only = rng.chance(1, 2);
        if rng.chance(1, 2) {
            real.announce_port = Some(rng.range(1, 65535) as u16);
        }
        let own = real.id.unwrap();
        let ih = rng.id20();
        let n = match rng.below(10) {
            0 => rng.range(1, 7),
            1 | 2 => rng.range(8, 12),
            3 | 4 | 5 => rng.range(13, 60),
            6 | 7 => rng.range(61, 200),
            _ => match tier {
                Tier::Quick => rng.range(100, 300),
                Tier::Thorough => rng.range(200, 1000),
            },
        } as usize;
        let placement = rng.below(4);
        let mut peer_no = 0u32;
        for i in 0..n {
            let id = match placement {
                0 => rng.id20(),
                1 => {
                    // clustered around the target
                    let d = rng.range(0, 40) as usize;
                    id_with_lcp(&ih, d, &mut rng)
                }
                2 => {
                    // clustered around the searcher's id
                    let d = rng.range(0, 40) as usize;
                    id_with_lcp(&own, d, &mut rng)
                }
                _ => {
                    if rng.chance(1, 2) {
                        id_with_lcp(&ih, rng.range(0, 20) as usize, &mut rng)
                    } else {
                        rng.id20()
                    }
                }
            };
            let mut s = StubCfg::honest(stub_addr(v6, i), id);
            let k = if rng.chance(1, 3) { rng.range(1, 5) } else { 0 };
            if k > 0 {
                let peers: Vec<SocketAddr> = (0..k)
                    .map(|_| {
                        peer_no += 1;
                        addr(v6, 4, peer_no, 9000)
                    })
                    .collect();
                s.peers.push((ih, peers));
            }
            sc.world.stubs.push(s);
        }
        // bootstrap contacts: a random non-empty subset
        let k = rng.range(1, (n as u64).min(8)) as usize;
        let mut idxs: Vec<usize> = (0..n).collect();
        rng.shuffle(&mut idxs);
        for i in idxs.into_iter().take(k) {
            real.nodes.push(sc.world.stubs[i].addr);
        }
        // a contact that was restarted under a new id on the same address: the node still holds it
        // under the old id (close to the target), its answers now carry the new one (far away).
        // Everybody names it by its real, new id, so the premise holds; the stale entry must not
        // cost an announce slot.
        let ghost = n >= 10 && real.nodes.len() >= 1 && rng.chance(1, 6);
        if ghost {
            let gi = sc.world.stubs.iter().position(|s| s.addr == real.nodes[0]).unwrap();
            let old = id_with_lcp(&ih, rng.range(60, 100) as usize, &mut rng);
            let mut far = ih;
            far[0] ^= 0x80;
            sc.world.stubs[gi].id = id_with_lcp(&far, 8, &mut rng);
            sc.world.stubs[gi].old_id = Some((30_000, old));
            sc.params.insert("ghost".into(), 1);
        }
        sc.reals.push(real);
        sc.at(0, Op::Start { node: 0 });
        let b = if ghost { sc.at(60_000, Op::Nop) } else { sc.at(0, Op::Bootstrapped { node: 0 }) };
        let announce = rng.chance(3, 4);
        // 1 run in 5: the caller does not read the stream to the end (fire-and-forget announce,
        // "first peer is enough"); the lookup, and with it the announce, must be carried out all the same
        let s = if rng.chance(1, 5) {
            let mode = match rng.below(3) {
                0 => Consume::DropAfterMs(*rng.pick(&[0u64, 1, 40, 300, 1_000, 1_499])),
                1 => Consume::DropAfterItems(rng.range(1, 3) as u32),
                _ => Consume::PollAfterMs(*rng.pick(&[500u64, 2_000, 30_000])),
            };
            let s = sc.after(b, rng.range(0, 3_000), Op::SearchX { node: 0, ih, announce, mode });
            // keep the run going until the abandoned lookup has certainly finished
            sc.after(s, 240_000, Op::Nop);
            s
        } else {
            sc.after(b, rng.range(0, 3_000), Op::Search { node: 0, ih, announce })
        };
        sc.params.insert("search_step".into(), s as i64);
        sc.params.insert("announce".into(), announce as i64);
        // back-to-back searches on the same node: the next one starts 0 ms .. 31 s after the previous
        // one ended, for another info-hash (every contact was queried moments ago)
        if rng.chance(1, 3) {
            let mut prev = s;
            for k in 0..rng.range(1, 2) {
                let ih2 = if rng.chance(1, 2) { rng.id20() } else { id_with_lcp(&ih, rng.range(0, 30) as usize, &mut rng) };
                for (i, st) in sc.world.stubs.iter_mut().enumerate() {
                    if i % 3 == k as usize {
                        peer_no += 1;
                        st.peers.push((ih2, vec![addr(v6, 4, peer_no, 9000)]));
                    }
                }
                let gap = *rng.pick(&[0u64, 1, 500, 5_000, 29_000, 31_000]);
                let f = sc.after(prev, gap, Op::Search { node: 0, ih: ih2, announce: rng.chance(3, 4) });
                sc.params.insert(format!("search_step{}", k + 2), f as i64);
                prev = f;
            }
        }
        sc.end_ms = 900_000;
        sc
    }

    fn check(&self, sc: &Scenario, run: &RunLog) -> Verdict {
        let mut v = Verdict::default();
        let mut steps = vec![sc.param("search_step") as usize];
        for k in 2..4 {
            if let Some(x) = sc.params.get(&format!("search_step{k}")) {
                steps.push(*x as usize);
            }
        }
        if steps.len() > 1 {
            v.hit("back_to_back_searches");
        }
        if sc.param("ghost") != 0 {
            v.hit("contact_restarted_under_new_id");
        }
        let mut nontrivial = false;
        let mut sample = serde_json::Value::Null;
        for (k, sstep) in steps.iter().enumerate() {
            let mut one = self.judge(sc, run, *sstep);
            v.violations.append(&mut one.violations);
            for (key, n) in one.reach {
                *v.reach.entry(key).or_insert(0) += n;
            }
            if k == 0 {
                nontrivial = one.nontrivial;
                sample = one.sample;
                v.inconclusive = one.inconclusive;
            } else if one.nontrivial {
                v.hit("follow_up_search_judged");
            }
        }
        v.nontrivial = nontrivial;
        v.sample = sample;
        v
    }
    fn rule(&self) -> &'static str {
        RULE
    }
    fn assumptions(&self) -> Vec<&'static str> {
        vec!["stubs answer every query with the 8 nodes truly closest to the target among all stubs (with or without themselves), per the property's premise"]
    }
    fn required_reach(&self) -> Vec<&'static str> {
        vec!["iterative_or_endgame_queries", "more_than_20_queries", "network_smaller_than_8", "network_200_plus", "peers_yielded", "stream_dropped_by_caller", "back_to_back_searches", "follow_up_search_judged", "contact_restarted_under_new_id"]
    }
}

impl C02 {
    /// Judges one search (identified by its step) of the run.
    fn judge(&self, sc: &Scenario, run: &RunLog, sstep: usize) -> Verdict {
        let mut v = Verdict::default();
        let real = &sc.reals[0];
        let node = real.addr;
        let own = real.id.unwrap();
        let (ih, announce) = match sc.steps.get(sstep).map(|s| &s.op) {
            Some(Op::Search { ih, announce, .. }) | Some(Op::SearchX { ih, announce, .. }) => (*ih, *announce),
            _ => return v,
        };
        let mut t_start = None;
        let mut t_end = None;
        let mut items: Vec<SocketAddr> = Vec::new();
        let mut dropped = false;
        for e in &run.log {
            if let Ev::Api { t, step, ev } = e {
                if *step != sstep {
                    continue;
                }
                match ev {
                    ApiEv::SearchStart { .. } => t_start = Some(*t),
                    ApiEv::SearchItem { addr } => items.push(*addr),
                    ApiEv::SearchEnd => t_end = Some(*t),
                    ApiEv::SearchDropped => {
                        t_end = Some(*t);
                        dropped = true;
                    }
                    _ => {}
                }
            }
        }
        let (t_start, t_end) = match (t_start, t_end) {
            (Some(a), Some(b)) => (a, b),
            _ => {
                v.inconclusive = true;
                return v;
            }
        };
        // wire view of this search
        let mut q_tids: BTreeMap<Vec<u8>, (SocketAddr, u64)> = BTreeMap::new();
        let mut announces: Vec<(SocketAddr, crate::krpc::Msg, u64)> = Vec::new();
        for w in sends(&run.log) {
            if w.src != node || w.t < t_start {
                continue;
            }
            if let Some(m) = &w.msg {
                let a = match m.args() {
                    Some(a) => a,
                    None => continue,
                };
                if a.get("info_hash").and_then(id20) != Some(ih) {
                    continue;
                }
                match m.qname() {
                    Some("get_peers") => {
                        q_tids.insert(m.t.clone(), (w.dst, w.t));
                    }
                    Some("announce_peer") => announces.push((w.dst, m.clone(), w.t)),
                    _ => {}
                }
            }
        }
        let mut expected_items: Vec<SocketAddr> = Vec::new();
        let mut answered: BTreeSet<SocketAddr> = BTreeSet::new();
        for w in delivers(&run.log) {
            if w.dst != node || w.t < t_start || (w.t > t_end && !dropped) {
                continue;
            }
            if let Some(m) = &w.msg {
                if let (Some(r), Some(_)) = (m.resp(), q_tids.get(&m.t)) {
                    answered.insert(w.src);
                    if let Some(vals) = r.get("values").and_then(parse_values) {
                        expected_items.extend(vals);
                    }
                }
            }
        }
        // clause: stream = multiset union of values in all answers
        let mut a = items.clone();
        let mut b = expected_items.clone();
        a.sort();
        b.sort();
        if dropped {
            // the caller walked away: what it did read must still come from the answers
            v.hit("stream_dropped_by_caller");
            let mut pool = b.clone();
            for x in &a {
                match pool.iter().position(|y| y == x) {
                    Some(p) => {
                        pool.remove(p);
                    }
                    None => {
                        v.violate("C02", "stream_not_union_of_values", t_end, format!("stream yielded {x}, which no answer to this search's get_peers queries carried (that often)"));
                        break;
                    }
                }
            }
        } else if a != b {
            let missing: Vec<_> = b.iter().filter(|x| !a.contains(x)).take(3).collect();
            let extra: Vec<_> = a.iter().filter(|x| !b.contains(x)).take(3).collect();
            v.violate("C02", "stream_not_union_of_values", t_end, format!("stream yielded {} items, answers to this search's get_peers queries carried {} values; missing e.g. {missing:?}, extra e.g. {extra:?}", a.len(), b.len()));
        }
        // clause: announce targets = the min(8, n) closest stubs
        let mut by_dist: Vec<([u8; 20], SocketAddr, &StubCfg)> = sc.world.stubs.iter().map(|s| (xor(&s.id, &ih), s.addr, s)).collect();
        by_dist.sort_by(|x, y| x.0.cmp(&y.0));
        let want: BTreeSet<SocketAddr> = by_dist.iter().take(8).map(|x| x.1).collect();
        let got: BTreeSet<SocketAddr> = announces.iter().map(|x| x.0).collect();
        if !announce {
            if !announces.is_empty() {
                v.violate("C02", "announced_without_request", t_end, format!("{} announce_peer datagrams sent although announcing was not requested", announces.len()));
            }
        } else {
            if got != want {
                let missing: Vec<_> = want.difference(&got).take(4).collect();
                let extra: Vec<_> = got.difference(&want).take(4).collect();
                v.violate("C02", "announce_targets", t_end, format!("announce_peer went to {} nodes, the {} closest of {} were expected; missing {missing:?}, unexpected {extra:?}", got.len(), want.len(), sc.world.stubs.len()));
            }
            if announces.len() != got.len() {
                v.violate("C02", "announce_repeated", t_end, format!("{} announce_peer datagrams to {} distinct nodes", announces.len(), got.len()));
            }
            for (dst, m, t) in &announces {
                let a = m.args().unwrap();
                let stub = sc.world.stubs.iter().find(|s| s.addr == *dst);
                if let Some(s) = stub {
                    if a.get("token").and_then(|x| x.as_bytes()) != Some(&s.token[..]) {
                        v.violate("C02", "announce_wrong_token", *t, format!("announce_peer to {dst} carries a token that node did not issue"));
                    }
                }
                if a.get("id").and_then(id20) != Some(own) {
                    v.violate("C02", "announce_wrong_id", *t, format!("announce_peer to {dst} does not carry the node's own id"));
                }
                let implied = a.get("implied_port").and_then(|x| x.as_int()).unwrap_or(0);
                let port = a.get("port").and_then(|x| x.as_int());
                match real.announce_port {
                    Some(p) => {
                        if port != Some(p as i64) || implied != 0 {
                            v.violate("C02", "announce_wrong_port", *t, format!("configured port {p}, announce_peer carries port={port:?} implied_port={implied}"));
                        }
                    }
                    None => {
                        if implied != 1 {
                            v.violate("C02", "announce_wrong_port", *t, format!("no port configured, announce_peer carries port={port:?} implied_port={implied}"));
                        }
                    }
                }
            }
        }
        // reach
        let nq = q_tids.len();
        if nq > 4 {
            v.hit("iterative_or_endgame_queries");
        }
        if nq > 20 {
            v.hit("more_than_20_queries");
        }
        if sc.world.stubs.len() < 8 {
            v.hit("network_smaller_than_8");
        }
        if sc.world.stubs.len() >= 200 {
            v.hit("network_200_plus");
        }
        if !items.is_empty() {
            v.hit("peers_yielded");
        }
        v.nontrivial = nq > 0 && !answered.is_empty();
        v.sample = json!({"stubs": sc.world.stubs.len(), "bootstrap_contacts": real.nodes.len(), "get_peers_queries": nq, "nodes_answered": answered.len(), "announces": announces.len(), "items": items.len(), "search_ms": t_end - t_start, "lat_max_ms": sc.net.lat_max_ms, "announce": announce});
        v
    }
}

const RULE: &str = "one real searcher (read-only or serving, announce port set or not) and 1..1000 ideal-Kademlia stubs (ids uniform / clustered around the target / clustered around the searcher), each holding 0..5 globally unique peers; a random non-empty subset as bootstrap contacts; one-way latency <= 450 ms, no message faults; the search is issued after bootstrap; in 1 run of 6 (>= 10 stubs) a bootstrap contact was restarted under a new, distant id half a minute before the search while the node still holds it under its old id close to the target; in 1 run of 3 one or two further searches for other info-hashes follow 0 ms .. 31 s after the previous one ended; in 1 run of 5 the caller drops the stream early (at once, after 1..1499 ms, after 1..3 items) or starts reading it only 0.5..30 s later, and the announce clauses are judged all the same. non-trivial = the search sent queries and got answers; distinct = distinct order digests";

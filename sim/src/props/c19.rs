//! C19 — transaction ids: 8 bytes, never reused while live or shared between activities.

use super::common::*;
use super::{Property, Tier, Verdict};
use crate::entropy::Rng;
use crate::exec::{Op, RunLog, Scenario};
use crate::krpc::{hex, id20, Msg};
use crate::log::{ApiEv, EpKind, Ev};
use crate::stubs::{Answer, StubCfg};
use btdht::verif::AIDGenerator;
use serde_json::json;
use std::collections::{BTreeMap, BTreeSet};
use std::net::SocketAddr;

pub struct C19;

fn run_soak(sc: &Scenario) -> Result<RunLog, String> {
    let seed = sc.entropy_seed;
    let n_mids = sc.param("mids") as u64;
    let n_aids = sc.param("aids") as u64;
    let h = std::thread::Builder::new()
        .name("soak".into())
        .spawn(move || {
            crate::entropy::install(seed);
            let mut notes: Vec<String> = Vec::new();
            let mut digest = crate::entropy::Fnv::default();
            // message ids of one activity: the first 2^24 must be pairwise distinct and share the prefix
            let mut aid = AIDGenerator::new();
            let mut mid = aid.generate();
            let mut seen = vec![0u64; (1usize << 24) / 64];
            let mut prefix: Option<[u8; 5]> = None;
            let mut first_repeat: Option<u64> = None;
            let mut bad_len = 0u64;
            let mut prefix_changes = 0u64;
            for i in 0..n_mids {
                let t = mid.generate();
                let b: &[u8] = t.as_ref();
                if b.len() != 8 {
                    bad_len += 1;
                    continue;
                }
                let mut p = [0u8; 5];
                p.copy_from_slice(&b[..5]);
                match prefix {
                    None => prefix = Some(p),
                    Some(q) if q != p => prefix_changes += 1,
                    _ => {}
                }
                let m = ((b[5] as usize) << 16) | ((b[6] as usize) << 8) | b[7] as usize;
                if i < (1 << 24) {
                    if seen[m / 64] & (1 << (m % 64)) != 0 {
                        if first_repeat.is_none() {
                            first_repeat = Some(i);
                        }
                    }
                    seen[m / 64] |= 1 << (m % 64);
                }
                if i % 65_536 == 0 {
                    digest.bytes(b);
                }
            }
            notes.push(format!("mids issued={n_mids} bad_len={bad_len} prefix_changes={prefix_changes} first_repeat={first_repeat:?}"));
            // activity prefixes: distinct generators have distinct prefixes
            let mut aid = AIDGenerator::new();
            let mut prefixes: BTreeSet<[u8; 5]> = BTreeSet::new();
            let mut dup_prefix = 0u64;
            for _ in 0..n_aids {
                let mut g = aid.generate();
                let t = g.generate();
                let b: &[u8] = t.as_ref();
                let mut p = [0u8; 5];
                p.copy_from_slice(&b[..5]);
                if !prefixes.insert(p) {
                    dup_prefix += 1;
                }
            }
            notes.push(format!("aids issued={n_aids} duplicate_prefixes={dup_prefix}"));
            let mut log = Vec::new();
            for (i, n) in notes.iter().enumerate() {
                digest.str(n);
                log.push(Ev::Api { t: 0, step: i, ev: ApiEv::Note(n.clone()) });
            }
            RunLog { log, digest: digest.0, order_digest: digest.0, stats: BTreeMap::new(), fired: vec![], end_ms: 0, overflow: false, timed_out: false, panics: crate::exec::PANICS.with(|p| p.borrow().clone()), entropy_drawn: crate::entropy::drawn() }
        })
        .map_err(|e| e.to_string())?;
    h.join().map_err(|_| "soak thread panicked".to_string())
}

impl Property for C19 {
    fn id(&self) -> &'static str {
        "C19"
    }
    fn runs(&self, tier: Tier) -> u64 {
        match tier {
            Tier::Quick => 640,
            Tier::Thorough => 20_000,
        }
    }
    fn generate(&self, seed: u64, idx: u64, tier: Tier) -> Scenario {
        let mut rng = Rng::new(seed ^ 0xC19 ^ idx.wrapping_mul(0x9E37_79B9_7F4A_7C15));
        // the transaction-id monitor also runs over other families' scenarios (node 0 of each)
        if idx % 8 == 7 {
            let sub = idx / 8;
            return match sub % 3 {
                0 => super::c03::C03.generate(seed, sub, tier),
                1 => super::c04::C04.generate(seed, sub, tier),
                _ => super::c15::C15.generate(seed, sub, tier),
            };
        }
        if idx % 160 == 1 {
            // generator soak (plain enumeration under seeded entropy; see DESIGN.md "honest scope")
            let mut sc = Scenario::new("c19_soak");
            sc.entropy_seed = rng.next();
            sc.params.insert("mids".into(), (1 << 24) + 4096);
            sc.params.insert("aids".into(), 100_000);
            return sc;
        }
        let mut sc = Scenario::new("c19");
        sc.entropy_seed = rng.next();
        sc.tokio_seed = rng.next();
        let v6 = rng.chance(1, 4);
        sc.world.v6 = v6;
        let faults = rng.chance(1, 3);
        sc.net = swarm_net(&mut rng, &[0, 5, 50, 300], faults);
        sc.net.corrupt_ppm = 0;
        let mut real = default_real(v6, 0, &mut rng);
        let n = rng.range(1, 12) as usize;
        let hours = match tier {
            Tier::Quick => *rng.pick(&[0u64, 0, 1, 2, 6]),
            Tier::Thorough => *rng.pick(&[0u64, 1, 6, 12, 24]),
        };
        let end = hours * 3_600_000 + 120_000;
        for i in 0..n {
            let mut s = StubCfg::honest(stub_addr(v6, i), rng.id20());
            if rng.chance(1, 5) {
                s.answer = Answer::SilentFrom(rng.range(10_000, end));
            }
            real.nodes.push(s.addr);
            sc.world.stubs.push(s);
        }
        if rng.chance(1, 6) {
            real.routers = real.nodes.iter().take(2).map(|a| a.to_string()).collect();
        }
        sc.reals.push(real);
        sc.at(0, Op::Start { node: 0 });
        // 1..20 searches, concurrent (different info-hashes) and sequential (same info-hash again)
        let n_s = rng.range(1, 20);
        let ihs: Vec<[u8; 20]> = (0..n_s).map(|_| rng.id20()).collect();
        let mut t = 10_000u64;
        for k in 0..n_s as usize {
            sc.at(t, Op::Search { node: 0, ih: ihs[k], announce: rng.chance(1, 2) });
            if rng.chance(1, 3) {
                // the same info-hash again, well after the first one has ended
                sc.at(t + 60_000, Op::Search { node: 0, ih: ihs[k], announce: rng.chance(1, 2) });
            }
            t += *rng.pick(&[0u64, 0, 50, 2_000, 30_000]);
        }
        sc.at(end - 1_000, Op::Sample { node: 0, table: false });
        sc.end_ms = end;
        sc.params.insert("hours".into(), hours as i64);
        sc
    }
    fn run(&self, sc: &Scenario) -> Result<RunLog, String> {
        if sc.family == "c19_soak" {
            run_soak(sc)
        } else {
            crate::exec::run_scenario(sc)
        }
    }
    fn check(&self, sc: &Scenario, run: &RunLog) -> Verdict {
        let mut v = Verdict::default();
        if sc.family == "c19_soak" {
            for e in &run.log {
                if let Ev::Api { ev: ApiEv::Note(n), .. } = e {
                    if n.starts_with("mids") {
                        if !n.contains("bad_len=0 ") {
                            v.violate("C19", "tid_not_8_bytes", 0, n.clone());
                        }
                        if !n.contains("prefix_changes=0 ") {
                            v.violate("C19", "prefix_changes_within_activity", 0, n.clone());
                        }
                        if !n.contains("first_repeat=None") {
                            v.violate("C19", "tid_repeated_before_2_24", 0, n.clone());
                        }
                    } else if n.starts_with("aids") && !n.ends_with("duplicate_prefixes=0") {
                        v.violate("C19", "prefix_shared", 0, n.clone());
                    }
                }
            }
            v.nontrivial = true;
            v.hit("soak_2_24_plus_4096");
            v.sample = json!({"family": "soak", "notes": run.log.iter().filter_map(|e| match e { Ev::Api { ev: ApiEv::Note(n), .. } => Some(n.clone()), _ => None }).collect::<Vec<_>>()});
            return v;
        }
        let node = sc.reals[0].addr;
        // searches by time window
        let mut windows: Vec<(usize, [u8; 20], u64, Option<u64>)> = Vec::new();
        for e in &run.log {
            if let Ev::Api { t, step, ev } = e {
                match ev {
                    ApiEv::SearchStart { node: 0, ih, .. } => windows.push((*step, *ih, *t, None)),
                    ApiEv::SearchEnd => {
                        if let Some(w) = windows.iter_mut().find(|w| w.0 == *step) {
                            w.3 = Some(*t);
                        }
                    }
                    _ => {}
                }
            }
        }
        // prefix -> set of activity keys ; prefix -> tid -> set of destinations
        let mut acts: BTreeMap<Vec<u8>, BTreeSet<String>> = BTreeMap::new();
        let mut uses: BTreeMap<Vec<u8>, Vec<(u64, SocketAddr, String)>> = BTreeMap::new();
        let mut search_prefixes: BTreeMap<usize, BTreeSet<Vec<u8>>> = BTreeMap::new();
        let mut fn_prefixes: BTreeSet<Vec<u8>> = BTreeSet::new();
        let mut queries = 0u64;
        for e in &run.log {
            if let Ev::Send { t, src, dst, bytes, src_kind: EpKind::Real, .. } = e {
                if *src != node {
                    continue;
                }
                let m = match Msg::parse(bytes) {
                    Some(m) if m.is_query() => m,
                    _ => continue,
                };
                queries += 1;
                if m.t.len() != 8 {
                    v.violate("C19", "tid_not_8_bytes", *t, format!("{} query carries a {}-byte transaction id", m.tag(), m.t.len()));
                    continue;
                }
                let prefix = m.t[..5].to_vec();
                let q = m.qname().unwrap_or("").to_string();
                let a = m.args().unwrap();
                let key = match q.as_str() {
                    "find_node" => {
                        fn_prefixes.insert(prefix.clone());
                        "find_node".to_string()
                    }
                    _ => {
                        let ih = a.get("info_hash").and_then(id20).unwrap_or([0; 20]);
                        // attribute to the search window (same info-hash) containing t
                        let w = windows.iter().rev().find(|w| w.1 == ih && w.2 <= *t && w.3.map(|te| *t <= te).unwrap_or(true));
                        match w {
                            Some(w) => {
                                search_prefixes.entry(w.0).or_default().insert(prefix.clone());
                                format!("search step {}", w.0)
                            }
                            None => format!("search {}", hex(&ih)),
                        }
                    }
                };
                acts.entry(prefix.clone()).or_default().insert(key);
                uses.entry(m.t.clone()).or_default().push((*t, *dst, q));
            }
        }
        for (p, keys) in &acts {
            if keys.len() > 1 {
                v.violate("C19", "prefix_shared", 0, format!("activity prefix {} is used by {:?}", hex(p), keys));
            }
        }
        for (step, ps) in &search_prefixes {
            if ps.len() > 1 {
                v.violate("C19", "search_uses_several_prefixes", 0, format!("search step {step} used prefixes {:?}", ps.iter().map(|p| hex(p)).collect::<Vec<_>>()));
            }
        }
        if fn_prefixes.len() > 2 {
            v.violate("C19", "too_many_find_node_prefixes", 0, format!("{} find_node prefixes in one incarnation", fn_prefixes.len()));
        }
        let mut shared_first_round = false;
        for (tid, l) in &uses {
            if l.len() > 1 {
                let all_fn = l.iter().all(|x| x.2 == "find_node");
                let dsts: BTreeSet<SocketAddr> = l.iter().map(|x| x.1).collect();
                if !all_fn || dsts.len() != l.len() {
                    v.violate("C19", "tid_repeated", l[1].0, format!("transaction id {} used {} times ({:?})", hex(tid), l.len(), l.iter().map(|x| format!("{} to {} at {}", x.2, x.1, x.0)).collect::<Vec<_>>()));
                } else {
                    shared_first_round = true;
                }
            }
        }
        if shared_first_round {
            v.hit("shared_first_round_id");
        }
        let max_per_prefix = acts.keys().map(|p| uses.keys().filter(|t| &t[..5] == &p[..]).count()).max().unwrap_or(0);
        if max_per_prefix > 2048 {
            v.hit("block_rollover_on_wire");
        }
        if windows.len() >= 5 {
            v.hit("five_plus_searches");
        }
        if sc.family != "c19" {
            v.hit("monitor_over_other_families");
        }
        v.nontrivial = queries > 3;
        v.sample = json!({"family": "wire", "queries": queries, "prefixes": acts.len(), "searches": windows.len(), "max_ids_in_one_activity": max_per_prefix, "hours": sc.param("hours")});
        v
    }
    fn rule(&self) -> &'static str {
        "wire family: one real node with 1..12 stub contacts (some going silent, sometimes as routers) running 1..20 concurrent and sequential searches (the same info-hash searched again later) over 0..24 virtual hours, optional message faults; every query the node emits is checked (8 bytes, one activity per 5-byte prefix, one prefix per search, <= 2 find_node prefixes, no id repeated except the first bootstrap round's id towards distinct addresses). 1 case in 8: the same monitor over scenarios of the C03, C04 and C15 families; soak family (1 in 160 cases): one message-id generator driven through 2^24 + 4096 ids and an action-id generator through 10^5 activities under seeded entropy. non-trivial = more than 3 queries observed / soak completed; distinct = distinct order digests"
    }
    fn assumptions(&self) -> Vec<&'static str> {
        vec!["the 2^24 wrap is reached by driving the generator directly (hook H2), which is enumeration rather than simulation; the 2^40 action-id wrap is out of reach and not claimed"]
    }
    fn required_reach(&self) -> Vec<&'static str> {
        vec!["soak_2_24_plus_4096", "shared_first_round_id", "block_rollover_on_wire", "five_plus_searches", "monitor_over_other_families"]
    }
}

//! C14 — no datagram can crash, abort or exhaust the node.
//!
//! Two families: (even indices) decode-level — byte strings <= 1500 B through the public
//! `Message::decode` on a 2 MiB stack under the counting allocator; (odd indices) node-level — real
//! serving nodes under normal traffic while a fuzzing peer and a corrupting network feed them
//! mutated datagrams, followed by a fault-free liveness phase.

use super::common::*;
use super::{Property, Tier, Verdict};
use crate::entropy::Rng;
use crate::exec::{Op, ProbeMsg, RunLog, Scenario};
use crate::krpc::{self, Val};
use crate::log::{ApiEv, Ev};
use crate::net::corrupt;
use crate::stubs::StubCfg;
use serde_json::json;
use std::collections::BTreeMap;

pub struct C14;

const DECODE_ALLOC_LIMIT: usize = 1 << 20;
const NODE_ALLOC_LIMIT: usize = 64 << 20;

/// A valid KRPC message of a random kind (independent codec).
pub fn valid_message(rng: &mut Rng, v6: bool) -> Vec<u8> {
    let tid = rng.bytes_in(0, 8);
    let id = rng.id20();
    let other = rng.id20();
    match rng.below(9) {
        0 => ping(&tid, &id),
        1 => find_node(&tid, &id, &other, None),
        2 => find_node(&tid, &id, &other, Some(&["n4", "n6"])),
        3 => get_peers(&tid, &id, &other, Some(&["n6"])),
        4 => krpc::query(
            &tid,
            "announce_peer",
            Val::dict()
                .with("id", Val::bytes(&id))
                .with("info_hash", Val::bytes(&other))
                .with("port", Val::Int(rng.below(65536) as i64))
                .with("implied_port", Val::Int(rng.below(2) as i64))
                .with("token", Val::Bytes(rng.bytes(20))),
        )
        .encode(),
        5 => {
            let nodes: Vec<_> = (0..rng.range(0, 8)).map(|i| (rng.id20(), addr(v6, 3, i as u32 + 1, 6881))).collect();
            let vals: Vec<_> = (0..rng.range(0, 5)).map(|i| addr(v6, 4, i as u32 + 1, 7000)).collect();
            let mut r = Val::dict().with("id", Val::bytes(&id)).with("token", Val::Bytes(rng.bytes(20)));
            r.set(if v6 { "nodes6" } else { "nodes" }, Val::Bytes(krpc::compact_nodes(&nodes)));
            if !vals.is_empty() {
                r.set("values", krpc::values_list(&vals));
            }
            krpc::response(&tid, r).encode()
        }
        6 => krpc::response(&tid, Val::dict().with("id", Val::bytes(&id))).encode(),
        7 => krpc::error(&tid, 200 + rng.below(5) as i64, "A Generic Error Ocurred").encode(),
        _ => {
            // query with unknown extension keys at several levels
            let mut m = krpc::query(&tid, "get_peers", Val::dict().with("id", Val::bytes(&id)).with("info_hash", Val::bytes(&other)).with("noseed", Val::Int(1)).with("scrape", Val::Int(1))).to_val();
            m.set("v", Val::bytes(b"UT\x01\x02"));
            m.set("ro", Val::Int(1));
            m.set("ip", Val::Bytes(rng.bytes(6)));
            m.encode()
        }
    }
}

/// Structure-aware hostile byte string of at most 1500 bytes.
pub fn hostile_bytes(rng: &mut Rng, v6: bool) -> Vec<u8> {
    let mut b = match rng.below(14) {
        12 => {
            // error message whose description is long valid UTF-8 with multi-byte characters at
            // every alignment (50..400 bytes)
            let lead = rng.range(0, 300) as usize;
            let mut text = "x".repeat(lead);
            let ch = *rng.pick(&["é", "€", "😀", "ß", "中"]);
            for _ in 0..rng.range(1, 60) {
                text.push_str(ch);
            }
            krpc::error(&rng.bytes_in(0, 8), 201 + rng.below(4) as i64, &text).encode()
        }
        13 => {
            // valid query with very long (but in-bounds) strings in known and unknown fields
            let id = rng.id20();
            let mut a = Val::dict().with("id", Val::bytes(&id)).with("info_hash", Val::Bytes(rng.bytes(20))).with("port", Val::Int(1)).with("token", Val::Bytes(rng.bytes_in(0, 1300)));
            if rng.chance(1, 2) {
                a.set("name", Val::Bytes(rng.bytes_in(0, 600)));
            }
            let mut m = krpc::query(&rng.bytes_in(0, 64), "announce_peer", a).to_val();
            if rng.chance(1, 2) {
                m.set("v", Val::Bytes(rng.bytes_in(0, 300)));
            }
            m.encode()
        }
        0 => {
            // length prefix of every magnitude up to and beyond 2^64 on a top-level key
            let digits = rng.range(1, 24) as usize;
            let mut s = b"d1:t".to_vec();
            s.push(b'1' + rng.below(9) as u8);
            for _ in 1..digits {
                s.push(b'0' + rng.below(10) as u8);
            }
            s.push(b':');
            s.extend_from_slice(&rng.bytes_in(0, 20));
            s
        }
        1 => {
            // nesting up to the datagram length
            let depth = rng.range(1, 1500) as usize;
            let open = *rng.pick(&[b'l', b'd']);
            let mut s = Vec::new();
            if open == b'l' {
                s.resize(depth, b'l');
            } else {
                // d1:ad1:ad1:a...
                while s.len() + 4 <= depth {
                    s.extend_from_slice(b"d1:a");
                }
            }
            if rng.chance(1, 2) {
                let n = s.len();
                let closers = if open == b'l' { n } else { n / 4 };
                for _ in 0..closers.min(1500usize.saturating_sub(n)) {
                    s.push(b'e');
                }
            }
            s
        }
        2 => {
            // nested lists inside an unknown key of an otherwise valid message
            let depth = rng.range(1, 700) as usize;
            let mut s = b"d1:ad2:id20:abcdefghij0123456789e1:q4:ping1:t2:aa1:x".to_vec();
            s.extend(std::iter::repeat(b'l').take(depth));
            s.extend(std::iter::repeat(b'e').take(depth));
            s.extend_from_slice(b"1:y1:qe");
            s
        }
        3 => {
            // integers at and beyond the i64 / u16 / u8 limits
            let n = *rng.pick(&[
                "9223372036854775807", "9223372036854775808", "-9223372036854775808", "-9223372036854775809",
                "65535", "65536", "255", "256", "-1", "-0", "00", "18446744073709551616", "1e5", "", "-",
            ]);
            match rng.below(3) {
                0 => format!("d1:ad2:id20:abcdefghij01234567899:info_hash20:mnopqrstuvwxyz1234564:porti{n}e5:token8:aoeusnthe1:q13:announce_peer1:t2:aa1:y1:qe").into_bytes(),
                1 => format!("d1:eli{n}e1:xe1:t2:aa1:y1:ee").into_bytes(),
                _ => format!("d1:ad2:id20:abcdefghij01234567899:info_hash20:mnopqrstuvwxyz12345612:implied_porti{n}e4:porti1e5:token8:aoeusnthe1:q13:announce_peer1:t2:aa1:y1:qe").into_bytes(),
            }
        }
        4 => {
            // truncation at every offset
            let m = valid_message(rng, v6);
            let k = rng.below(m.len() as u64 + 1) as usize;
            m[..k].to_vec()
        }
        5 => {
            // wrong types in every position: replace one value by another type
            let m = valid_message(rng, v6);
            let repl: &[u8] = *rng.pick(&[&b"i7e"[..], b"le", b"de", b"0:", b"li1ei2ee", b"d1:ai1ee"]);
            // find a value start (after a key) heuristically: position of a ':' followed by key bytes
            let pos = rng.below(m.len() as u64) as usize;
            let mut v = m[..pos].to_vec();
            v.extend_from_slice(repl);
            v.extend_from_slice(&m[pos..]);
            v
        }
        6 => {
            // non-UTF-8 text where text is expected
            b"d1:eli201e4:\xff\xfe\xfd\xfce1:t2:aa1:y1:ee".to_vec()
        }
        7 => {
            // duplicated / missing keys
            match rng.below(3) {
                0 => b"d1:ad2:id20:abcdefghij01234567892:id20:abcdefghij0123456789e1:q4:ping1:t2:aa1:t2:bb1:y1:qe".to_vec(),
                1 => b"d1:q4:ping1:t2:aa1:y1:qe".to_vec(),
                _ => b"d1:ad2:id20:abcdefghij0123456789e1:t2:aa1:y1:qe".to_vec(),
            }
        }
        8 => rng.bytes_in(0, 1500),
        9 => {
            // huge declared node list / values entries
            let digits = rng.range(1, 21) as usize;
            let mut s = b"d1:rd2:id20:abcdefghij01234567895:nodes".to_vec();
            for i in 0..digits {
                s.push(if i == 0 { b'1' + rng.below(9) as u8 } else { b'0' + rng.below(10) as u8 });
            }
            s.push(b':');
            s.extend_from_slice(&rng.bytes_in(0, 60));
            s.extend_from_slice(b"e1:t2:aa1:y1:re");
            s
        }
        _ => {
            // 1..3 generic mutations of a valid message
            let mut m = valid_message(rng, v6);
            for _ in 0..rng.range(1, 3) {
                let r = rng.next();
                m = corrupt(&m, ((r % 7) as u8, (r >> 8) as u32, (r >> 40) as u32));
            }
            m
        }
    };
    b.truncate(1500);
    b
}

fn decode_family(seed_rng: &mut Rng, tier: Tier) -> Scenario {
    let mut sc = Scenario::new("c14_decode");
    sc.entropy_seed = seed_rng.next();
    let n = match tier {
        Tier::Quick => 200,
        Tier::Thorough => 400,
    };
    let v6 = seed_rng.chance(1, 2);
    for _ in 0..n {
        let b = hostile_bytes(seed_rng, v6);
        sc.inputs.push(b);
    }
    sc
}

/// Systematic layer: for one valid message, every truncation offset, a grown length prefix /
/// integer at every digit position (1, 10 and 20 extra digits), and every byte position replaced
/// by each structural byte. Within one base message this enumerates all single-mutation placements.
fn systematic_family(rng: &mut Rng) -> Scenario {
    let mut sc = Scenario::new("c14_decode");
    sc.entropy_seed = rng.next();
    let v6 = rng.chance(1, 2);
    let base = valid_message(rng, v6);
    sc.params.insert("systematic".into(), 1);
    for k in 0..=base.len() {
        sc.inputs.push(base[..k].to_vec());
    }
    for (pos, b) in base.iter().enumerate() {
        if b.is_ascii_digit() {
            for extra in [1usize, 10, 20] {
                let mut v = base[..pos].to_vec();
                v.extend(std::iter::repeat(b'9').take(extra));
                v.extend_from_slice(&base[pos..]);
                v.truncate(1500);
                sc.inputs.push(v);
            }
        }
    }
    for pos in 0..base.len() {
        for r in [b'd', b'l', b'i', b'e', b':', b'-', b'0', 0xffu8] {
            if base[pos] != r {
                let mut v = base.clone();
                v[pos] = r;
                sc.inputs.push(v);
            }
        }
    }
    sc
}

fn run_decode(sc: &Scenario) -> Result<RunLog, String> {
    let inputs = sc.inputs.clone();
    let seed = sc.entropy_seed;
    let h = std::thread::Builder::new()
        .name("decode".into())
        .stack_size(2 * 1024 * 1024)
        .spawn(move || {
            crate::entropy::install(seed);
            crate::exec::PANICS.with(|p| p.borrow_mut().clear());
            let mut log = Vec::new();
            let mut digest = crate::entropy::Fnv::default();
            let mut order = crate::entropy::Fnv::default();
            for (i, b) in inputs.iter().enumerate() {
                crate::alloc::monitor(true);
                let r = std::panic::catch_unwind(|| btdht::message::Message::decode(b).is_ok());
                let peak = crate::alloc::peak();
                crate::alloc::monitor(false);
                let outcome = match r {
                    Ok(true) => "ok",
                    Ok(false) => "err",
                    Err(_) => "panic",
                };
                let ev = Ev::Api { t: i as u64, step: i, ev: ApiEv::Note(format!("decode {outcome} peak_alloc={peak} len={}", b.len())) };
                ev.feed(&mut digest);
                order.str(outcome);
                order.u64((b.len() / 64) as u64);
                log.push(ev);
            }
            RunLog {
                log,
                digest: digest.0,
                order_digest: order.0,
                stats: BTreeMap::new(),
                fired: vec![],
                end_ms: 0,
                overflow: false,
                timed_out: false,
                panics: crate::exec::PANICS.with(|p| p.borrow().clone()),
                entropy_drawn: crate::entropy::drawn(),
            }
        })
        .map_err(|e| e.to_string())?;
    h.join().map_err(|_| "decode thread panicked".to_string())
}

fn node_family(rng: &mut Rng, _tier: Tier) -> Scenario {
    let mut sc = Scenario::new("c14_node");
    sc.entropy_seed = rng.next();
    sc.tokio_seed = rng.next();
    let v6 = rng.chance(1, 3);
    sc.world.v6 = v6;
    sc.net = swarm_net(rng, &[0, 5, 50], false);
    let n = rng.range(1, 3) as usize;
    for i in 0..n {
        let mut r = default_real(v6, i, rng);
        r.read_only = false;
        sc.reals.push(r);
    }
    full_mesh(&mut sc);
    // a few honest stubs as extra contacts
    for i in 0..rng.range(0, 4) as usize {
        let s = StubCfg::honest(stub_addr(v6, i), rng.id20());
        for r in sc.reals.iter_mut() {
            r.nodes.push(s.addr);
        }
        sc.world.stubs.push(s);
    }
    start_all(&mut sc, 0);
    let attack_from = 1_000;
    let attack_len = rng.range(2_000, 20_000);
    // the network corrupts datagrams during the attack phase only
    sc.net.corrupt_ppm = *rng.pick(&[0u32, 50_000, 200_000, 500_000]);
    sc.net.dup_ppm = *rng.pick(&[0u32, 50_000]);
    sc.net.fault_from_ms = attack_from;
    sc.net.fault_to_ms = attack_from + attack_len;
    // fuzzing peer(s)
    let n_fuzz = rng.range(20, 400);
    for k in 0..n_fuzz {
        let from = addr(v6, 3, rng.range(1, 6) as u32, 6000 + rng.below(4) as u16);
        let to = sc.reals[rng.below(n as u64) as usize].addr;
        let t = attack_from + rng.below(attack_len);
        let _ = k;
        sc.at(t, Op::Raw { from, to, bytes: hostile_bytes(rng, v6) });
    }
    // normal traffic during the attack
    let ih = rng.id20();
    // in one run of four the search is for a popular info-hash (legal, large get_peers answers:
    // hundreds of values in all) and the application holds its stream without reading it until long
    // after the liveness phase: the node must keep serving meanwhile
    if rng.chance(1, 4) {
        while sc.world.stubs.len() < 4 {
            let i = sc.world.stubs.len();
            let s = StubCfg::honest(stub_addr(v6, i), rng.id20());
            for r in sc.reals.iter_mut() {
                r.nodes.push(s.addr);
            }
            sc.world.stubs.push(s);
        }
        let per = if v6 { 50 } else { 120 };
        for (i, s) in sc.world.stubs.iter_mut().enumerate() {
            s.peers.push((ih, (0..per).map(|k| addr(v6, 4, 1 + i as u32 * 200 + k, 9000)).collect()));
        }
        sc.at(attack_from + rng.below(attack_len), Op::SearchX { node: 0, ih, announce: true, mode: crate::exec::Consume::PollAfterMs(attack_len + 60_000) });
        sc.params.insert("neglected_stream".into(), 1);
    } else {
        sc.at(attack_from + rng.below(attack_len), Op::Search { node: 0, ih, announce: true });
    }
    if rng.chance(1, 2) {
        sc.at(attack_from + rng.below(attack_len), Op::RecvErr { node: 0, count: rng.range(1, 3) as u32 });
    }
    // liveness phase, fault-free
    let live = attack_from + attack_len + 8_000;
    for i in 0..n {
        let pa = probe_addr(v6, i, 7000);
        sc.at(live, Op::Probe { from: pa, to: sc.reals[i].addr, msg: ProbeMsg::Bytes(ping(b"lv", &[7u8; 20])), timeout_ms: 5_000 });
        sc.at(live, Op::Sample { node: i, table: true });
        sc.at(live + 10, Op::Search { node: i, ih, announce: false });
    }
    sc.end_ms = live + 120_000;
    sc.params.insert("live_ms".into(), live as i64);
    sc.params.insert("nodes".into(), n as i64);
    sc
}

impl Property for C14 {
    fn id(&self) -> &'static str {
        "C14"
    }
    fn level(&self) -> &'static str {
        "fault_enumeration"
    }
    fn runs(&self, tier: Tier) -> u64 {
        match tier {
            Tier::Quick => 2_000,
            Tier::Thorough => 100_000,
        }
    }
    fn generate(&self, seed: u64, idx: u64, tier: Tier) -> Scenario {
        let mut rng = Rng::new(seed ^ 0xC14 ^ idx.wrapping_mul(0x9E37_79B9_7F4A_7C15));
        if idx % 4 == 2 {
            systematic_family(&mut rng)
        } else if idx % 2 == 0 {
            decode_family(&mut rng, tier)
        } else {
            node_family(&mut rng, tier)
        }
    }
    fn run(&self, sc: &Scenario) -> Result<RunLog, String> {
        if sc.family == "c14_decode" {
            run_decode(sc)
        } else {
            // monitor allocations of the whole simulation thread (coarse limit, see NODE_ALLOC_LIMIT)
            let r = crate::exec::run_scenario_with(sc, true);
            r
        }
    }
    fn check(&self, sc: &Scenario, run: &RunLog) -> Verdict {
        let mut v = Verdict::default();
        for p in &run.panics {
            v.violate("C14", "panic", 0, format!("a task panicked: {p}"));
        }
        if sc.family == "c14_decode" {
            let mut oks = 0;
            let mut errs = 0;
            let mut max_peak = 0usize;
            for (i, e) in run.log.iter().enumerate() {
                if let Ev::Api { ev: ApiEv::Note(n), .. } = e {
                    if n.starts_with("decode ok") {
                        oks += 1;
                    } else if n.starts_with("decode err") {
                        errs += 1;
                    } else {
                        v.violate("C14", "decode_panic", i as u64, format!("decode panicked on input {}", krpc::hex(&sc.inputs[i])));
                    }
                    let peak: usize = n.split("peak_alloc=").nth(1).and_then(|s| s.split(' ').next()).and_then(|s| s.parse().ok()).unwrap_or(0);
                    max_peak = max_peak.max(peak);
                    if peak > DECODE_ALLOC_LIMIT {
                        v.violate("C14", "decode_alloc", i as u64, format!("decoding a {}-byte input requested {peak} bytes in one allocation: {}", sc.inputs[i].len(), String::from_utf8_lossy(&sc.inputs[i][..sc.inputs[i].len().min(60)])));
                    }
                }
            }
            v.nontrivial = errs > 0;
            if sc.param("systematic") != 0 {
                v.hit_n("systematic_single_mutation_inputs", sc.inputs.len() as u64);
            }
            v.hit_n("decode_ok", oks);
            v.hit_n("decode_err", errs);
            v.sample = json!({"family": "decode", "inputs": sc.inputs.len(), "ok": oks, "err": errs, "max_single_alloc": max_peak,
                "first_inputs": sc.inputs.iter().take(3).map(|b| String::from_utf8_lossy(&b[..b.len().min(80)]).to_string()).collect::<Vec<_>>()});
            return v;
        }
        // node-level
        let live = sc.param("live_ms") as u64;
        let n = sc.param("nodes") as usize;
        let peak = run.stats.get("alloc_peak").copied().unwrap_or(0) as usize;
        if peak > NODE_ALLOC_LIMIT {
            v.violate("C14", "node_alloc", 0, format!("a single allocation of {peak} bytes was requested while nodes handled <=1500-byte datagrams"));
        }
        let mut pings_ok = 0;
        let mut samples_ok = 0;
        let mut searches_done = 0;
        let mut search_started: BTreeMap<usize, u64> = BTreeMap::new();
        for e in &run.log {
            if let Ev::Api { t, step, ev } = e {
                if *t < live {
                    continue;
                }
                match ev {
                    ApiEv::ProbeReply { bytes, .. } => {
                        if krpc::Msg::parse(bytes).map(|m| m.is_response()).unwrap_or(false) {
                            pings_ok += 1;
                        }
                    }
                    ApiEv::ProbeTimeout => v.violate("C14", "ping_unanswered", *t, "node no longer answers ping after the datagram sequence".into()),
                    ApiEv::Sample { node, state, contacts, local_addr_ok, .. } => {
                        if state.is_some() && contacts.is_some() && *local_addr_ok {
                            samples_ok += 1;
                        } else {
                            v.violate("C14", "api_dead", *t, format!("node {node}: get_state={} load_contacts={} local_addr={}", state.is_some(), contacts.is_some(), local_addr_ok));
                        }
                    }
                    ApiEv::SearchStart { .. } => {
                        search_started.insert(*step, *t);
                    }
                    ApiEv::SearchEnd => {
                        if search_started.remove(step).is_some() {
                            searches_done += 1;
                        }
                    }
                    _ => {}
                }
            }
        }
        for (step, t) in search_started {
            v.violate("C14", "search_hangs", t, format!("search (step {step}) started at {t} ms after the datagram sequence never completed"));
        }
        if pings_ok + samples_ok + searches_done < 3 * n && v.violations.is_empty() {
            v.inconclusive = true;
        }
        let hostile = run.stats.get("sent_raw").copied().unwrap_or(0);
        v.nontrivial = hostile > 0;
        v.hit_n("hostile_datagrams", hostile);
        v.hit_n("liveness_pings_ok", pings_ok as u64);
        if sc.param("neglected_stream") != 0 {
            v.hit("neglected_stream_of_a_popular_search");
        }
        v.sample = json!({"family": "node", "nodes": n, "hostile_datagrams": hostile, "corrupted_in_flight": run.stats.get("fault_corrupt"), "alloc_peak": peak, "pings_ok": pings_ok, "samples_ok": samples_ok, "searches_done": searches_done});
        v
    }
    fn rule(&self) -> &'static str {
        "indices = 2 mod 4: systematic single-mutation enumeration of one valid message (every truncation offset, grown length prefix at every digit, every byte replaced by each structural byte); other even indices: 200..400 structure-aware hostile byte strings (<=1500 B) per case through the public Message::decode on a 2 MiB stack under a counting allocator; odd indices: 1..3 real serving nodes + stubs under normal traffic, 20..400 hostile datagrams from several addresses plus in-flight corruption/duplication/recv errors (in 1 run of 4 the search running meanwhile is for a popular info-hash - hundreds of values in large, legal answers - and its stream is held unread until long after), then a fault-free liveness phase (ping, get_state, load_contacts, local_addr, search). non-trivial = at least one input rejected (decode) / at least one hostile datagram delivered (node); distinct = distinct order digests"
    }
    fn assumptions(&self) -> Vec<&'static str> {
        vec![
            "abort / stack overflow is detected as death of the supervised worker process and attributed to the announced case",
            "node-level allocation monitor is coarse (64 MiB, whole simulation thread); the 1 MiB per-decode limit is enforced in the decode family",
        ]
    }
    fn required_reach(&self) -> Vec<&'static str> {
        vec!["hostile_datagrams", "decode_err", "liveness_pings_ok", "systematic_single_mutation_inputs", "neglected_stream_of_a_popular_search"]
    }
}

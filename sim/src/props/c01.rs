//! C01 — announced peers are found by every other node's search (end to end).

use super::common::*;
use super::{Property, Tier, Verdict};
use crate::entropy::Rng;
use crate::exec::{Op, RunLog, Scenario, When};
use crate::krpc::{id20, Kind, Msg};
use crate::log::{ApiEv, Ev};
use serde_json::json;
use std::collections::{BTreeMap, BTreeSet};
use std::net::SocketAddr;

pub struct C01;

const DAY: u64 = 24 * 3_600_000;
const MARGIN: u64 = 10_000;

impl Property for C01 {
    fn id(&self) -> &'static str {
        "C01"
    }
    fn runs(&self, tier: Tier) -> u64 {
        match tier {
            Tier::Quick => 750,
            Tier::Thorough => 30_000,
        }
    }
    fn generate(&self, seed: u64, idx: u64, tier: Tier) -> Scenario {
        let mut rng = Rng::new(seed ^ 0xC01 ^ idx.wrapping_mul(0x9E37_79B9_7F4A_7C15));
        let mut sc = Scenario::new("c01");
        sc.entropy_seed = rng.next();
        sc.tokio_seed = rng.next();
        let v6 = rng.chance(1, 3);
        // loss-free, duplicate-free; latency uniform in [0, L]
        sc.net = swarm_net(&mut rng, &[0, 5, 50, 300, 700, 700, 1000], false);
        // long histories are expensive (every node re-bootstraps every 5 s): few, and on small networks
        // (they come early - each worker's third run - so that a wall-clock budget cut never drops
        // them, but after the indices the determinism self-test samples)
        let long = match tier {
            Tier::Quick => (32..44).contains(&idx),
            Tier::Thorough => (32..192).contains(&idx),
        };
        let n = if long { match tier { Tier::Quick => 2, Tier::Thorough => rng.range(2, 3) } } else { rng.range(2, 9) } as usize;
        let clustered = rng.chance(1, 4);
        let base = rng.id20();
        for i in 0..n {
            let mut r = default_real(v6, i, &mut rng);
            r.read_only = false;
            if clustered {
                r.id = Some(id_with_lcp(&base, rng.range(0, 30) as usize, &mut rng));
            }
            if rng.chance(1, 2) {
                r.announce_port = Some(rng.range(1, 65535) as u16);
            }
            sc.reals.push(r);
        }
        // "all know each other": full mesh, or (low latency only) a star through node 0
        let star = sc.net.lat_max_ms <= 50 && rng.chance(1, 4);
        if star {
            // the hub is given every spoke, the spokes only the hub: they learn of each other
            // through the hub's answers (a node never learns of whoever merely queries it)
            let hub = sc.reals[0].addr;
            let spokes: Vec<SocketAddr> = sc.reals.iter().skip(1).map(|r| r.addr).collect();
            sc.reals[0].nodes = spokes;
            for r in sc.reals.iter_mut().skip(1) {
                r.nodes = vec![hub];
            }
        } else {
            full_mesh(&mut sc);
        }
        start_all(&mut sc, 0);
        // premise check: after things settled, every node must list every other one
        // the workload starts seconds, half an hour or hours after start-up (idle nodes age: token
        // secrets rotate lazily, contacts turn questionable and get refreshed)
        let idle = match (rng.below(20), n <= 4) {
            (0..=13, true) | (0..=16, false) => 0,
            (14..=18, true) | (_, false) => rng.range(31 * 60_000, 40 * 60_000),
            _ => rng.range(3_600_000, 2 * 3_600_000),
        };
        let idle = if long { 0 } else { idle };
        let t_ready = if star { 60_000 } else { 20_000 } + idle;
        sc.params.insert("idle_ms".into(), idle as i64);
        for i in 0..n {
            sc.at(t_ready - 1, Op::Sample { node: i, table: false });
        }
        let n_ih = if long { 1 + (idx % 2) as usize } else { rng.range(1, 2) as usize };
        let ihs: Vec<[u8; 20]> = (0..n_ih).map(|_| rng.id20()).collect();
        let mut t = t_ready;
        // long runs: every info-hash gets announced (by the same node when there are only two), so
        // that pairs with different histories (renewed / not renewed) age side by side in the stores
        let n_ann = if long { n_ih } else { rng.range(1, 3.min(n as u64 - 1).max(1)) as usize };
        let mut ann_steps: Vec<(usize, usize)> = Vec::new(); // (step, node)
        for k in 0..n_ann {
            let a = (k * 2) % n;
            let ih = ihs[k % n_ih];
            // an application that first looks (no announce) and moments later announces the same
            // info-hash on the same node, while the first search is still running
            if !long && rng.chance(1, 4) {
                let lead = *rng.pick(&[0u64, 1, 300, 1_400, 2_000]);
                sc.at(t.saturating_sub(lead).max(t_ready), Op::Search { node: a, ih, announce: false });
                sc.params.insert("look_then_announce".into(), 1);
            }
            let s = sc.at(t, Op::Search { node: a, ih, announce: true });
            ann_steps.push((s, a));
            t += *rng.pick(&[0u64, 300, 5_000]);
        }
        // offset between the end of the announcing searches and the searches
        let delta = if long {
            *rng.pick(&[DAY - 3_600_000, DAY - 60_000, DAY + 60_000, DAY + 3_600_000, DAY / 2])
        } else {
            match rng.below(24) {
                0..=4 => 1_000 + sc.net.lat_max_ms,
                5..=10 => rng.range(2_000, 20_000),
                11..=15 => rng.range(20_000, 300_000),
                16 | 17 => rng.range(10 * 60_000, 40 * 60_000), // around token lifetimes
                18 => rng.range(3_600_000, 2 * 3_600_000),
                _ => rng.range(1_000, 5_000) + sc.net.lat_max_ms,
            }
        };
        let last_ann = ann_steps.last().unwrap().0;
        let n_search = rng.range(1, 4.min(n as u64)) as usize;
        let mut first = None;
        for k in 0..n_search {
            let b = (1 + k * 3) % n;
            let ih = ihs[k % n_ih];
            let extra = if k == 0 { 0 } else { *rng.pick(&[0u64, 0, 100, 2_000]) };
            let s = step(&mut sc, When::After { step: last_ann, delay: delta + extra }, Op::Search { node: b, ih, announce: false });
            first.get_or_insert(s);
        }
        // a re-announce in between restarts the 24 hours (of that pair only)
        if long && rng.chance(2, 3) {
            let (_, a) = ann_steps[0];
            let t_re = *rng.pick(&[3_600_000u64, delta / 2, DAY - 3_600_000]);
            step(&mut sc, When::After { step: last_ann, delay: t_re }, Op::Search { node: a, ih: ihs[0], announce: true });
            // searches on both sides of the first announce's and of the re-announce's 24 hours
            let b = (a + 1) % n;
            for at in [DAY + 180_000, t_re + DAY - 300_000] {
                if at > t_re + 60_000 {
                    step(&mut sc, When::After { step: last_ann, delay: at }, Op::Search { node: b, ih: ihs[0], announce: false });
                }
            }
            if n_ih > 1 {
                // the pair that was not renewed, just after its 24 hours
                step(&mut sc, When::After { step: last_ann, delay: DAY + 240_000 }, Op::Search { node: (ann_steps[1].1 + 1) % n, ih: ihs[1], announce: false });
            }
            sc.params.insert("reannounce_ms".into(), t_re as i64);
        }
        // a late searcher after > 24 h in long runs
        if long {
            step(&mut sc, When::After { step: last_ann, delay: DAY + DAY / 2 + 120_000 }, Op::Search { node: 1 % n, ih: ihs[0], announce: false });
        }
        sc.end_ms = t + delta + if long { DAY + DAY / 2 + 600_000 } else { 600_000 };
        sc.params.insert("long".into(), long as i64);
        sc.params.insert("star".into(), star as i64);
        sc
    }

    fn check(&self, sc: &Scenario, run: &RunLog) -> Verdict {
        let mut v = Verdict::default();
        let addrs: Vec<SocketAddr> = sc.reals.iter().map(|r| r.addr).collect();
        let n = addrs.len();
        // premise: everybody knows everybody before the workload
        let mut knows: BTreeMap<usize, BTreeSet<SocketAddr>> = BTreeMap::new();
        for e in &run.log {
            if let Ev::Api { ev: ApiEv::Sample { node, contacts: Some((g, q)), .. }, .. } = e {
                knows.entry(*node).or_insert_with(|| g.iter().chain(q.iter()).copied().collect());
            }
        }
        let premise = (0..n).all(|i| knows.get(&i).map(|k| addrs.iter().enumerate().all(|(j, a)| j == i || k.contains(a))).unwrap_or(false));
        if !premise {
            v.inconclusive = true;
            v.hit("premise_not_met");
            v.sample = json!({"nodes": n, "premise_met": false});
            return v;
        }
        // model: stored[(ih, contact)] = per storing node, time of the last acknowledged announce
        // (acknowledgement = response with the same id from the storing node)
        let mut pending: BTreeMap<(SocketAddr, SocketAddr, Vec<u8>), ([u8; 20], SocketAddr, u64)> = BTreeMap::new();
        let mut stored: BTreeMap<([u8; 20], SocketAddr), BTreeMap<SocketAddr, u64>> = BTreeMap::new();
        let mut ever: BTreeMap<[u8; 20], BTreeSet<SocketAddr>> = BTreeMap::new();
        struct S {
            node: usize,
            ih: [u8; 20],
            announce: bool,
            t0: u64,
            t1: Option<u64>,
            items: Vec<SocketAddr>,
            /// snapshot of the model at search start
            snap: BTreeMap<SocketAddr, (u64, u64)>,
        }
        let mut searches: BTreeMap<usize, S> = BTreeMap::new();
        for e in &run.log {
            match e {
                Ev::Deliver { t, src, dst, bytes, .. } => {
                    if let Some(m) = Msg::parse(bytes) {
                        match &m.kind {
                            Kind::Query { q, a } if q == "announce_peer" => {
                                if let (Some(ai), Some(ih)) = (addrs.iter().position(|x| x == src), a.get("info_hash").and_then(id20)) {
                                    let implied = a.get("implied_port").and_then(|x| x.as_int()).unwrap_or(0) != 0;
                                    let port = a.get("port").and_then(|x| x.as_int()).unwrap_or(0) as u16;
                                    let contact = if implied { *src } else { SocketAddr::new(src.ip(), port) };
                                    // what the property promises: the configured port, or the source port
                                    let promised = match sc.reals[ai].announce_port {
                                        Some(p) => SocketAddr::new(src.ip(), p),
                                        None => *src,
                                    };
                                    if contact != promised {
                                        v.violate("C01", "announced_wrong_contact", *t, format!("node {ai} announced {contact}, its configuration promises {promised}"));
                                    }
                                    pending.insert((*dst, *src, m.t.clone()), (ih, contact, *t));
                                }
                            }
                            Kind::Response { .. } => {
                                if let Some((ih, contact, ts)) = pending.remove(&(*src, *dst, m.t.clone())) {
                                    stored.entry((ih, contact)).or_default().insert(*src, ts);
                                    ever.entry(ih).or_default().insert(contact);
                                }
                            }
                            _ => {}
                        }
                    }
                }
                Ev::Api { t, step, ev } => match ev {
                    ApiEv::SearchStart { node, ih, announce } => {
                        let snap = stored
                            .iter()
                            .filter(|((h, _), _)| h == ih)
                            .map(|((_, c), per)| (*c, (*per.values().min().unwrap(), *per.values().max().unwrap())))
                            .collect();
                        searches.insert(*step, S { node: *node, ih: *ih, announce: *announce, t0: *t, t1: None, items: vec![], snap });
                    }
                    ApiEv::SearchItem { addr } => {
                        if let Some(s) = searches.get_mut(step) {
                            s.items.push(*addr);
                        }
                    }
                    ApiEv::SearchEnd => {
                        if let Some(s) = searches.get_mut(step) {
                            s.t1 = Some(*t);
                        }
                    }
                    _ => {}
                },
                _ => {}
            }
        }
        let must_find_applies = sc.net.lat_max_ms <= 700;
        // what the statement promises: once an announcing search has ENDED, the announcer's contact
        // is found. (The wire-level model above only knows acknowledged announces; an announce that
        // is refused or lost is invisible to it, so it is used for expiry and fabrication only.)
        let mut announced_by_api: Vec<(usize, [u8; 20], u64, SocketAddr)> = Vec::new();
        for s in searches.values() {
            if let (true, Some(te)) = (s.announce, s.t1) {
                let a = &sc.reals[s.node];
                let promised = match a.announce_port {
                    Some(p) => SocketAddr::new(a.addr.ip(), p),
                    None => a.addr,
                };
                announced_by_api.push((s.node, s.ih, te, promised));
            }
        }
        let mut judged = 0u64;
        let mut samples = Vec::new();
        for (step, s) in &searches {
            let t1 = match s.t1 {
                Some(t) => t,
                None => {
                    v.violate("C01", "search_never_ends", run.end_ms, format!("search (step {step}) on node {} issued at {} ms never ended", s.node, s.t0));
                    continue;
                }
            };
            let me = addrs[s.node];
            let got: BTreeSet<SocketAddr> = s.items.iter().copied().collect();
            // no fabrication: only contacts that were announced for this info-hash at some point
            // (announces that complete while this search runs count as well)
            let announced_ever = ever.get(&s.ih).cloned().unwrap_or_default();
            for c in &got {
                if !announced_ever.contains(c) {
                    v.violate("C01", "fabricated_peer", t1, format!("search on node {} yielded {c}, which nobody announced for this info-hash", s.node));
                }
            }
            for (an, ih, te, promised) in &announced_by_api {
                if *an == s.node || *ih != s.ih {
                    continue;
                }
                if s.t0 >= *te + 1_000 && t1 + MARGIN < *te + DAY {
                    judged += 1;
                    if must_find_applies {
                        v.hit("must_find_after_announcing_search_ended");
                        if !got.contains(promised) {
                            v.violate("C01", "announced_peer_not_found", t1, format!("node {an}'s announcing search ended at {te} ms; node {} searched from {} to {t1} ms and was not given {promised} (yielded: {:?})", s.node, s.t0, got));
                        }
                        if sc.param("idle_ms") > 30 * 60_000 {
                            v.hit("announce_after_idle_half_hour");
                        }
                    }
                }
            }
            for (contact, (t_first, t_last)) in &s.snap {
                if contact.ip() == me.ip() {
                    continue; // the searcher's own announce: the statement is about other nodes
                }
                judged += 1;
                if s.t0 >= *t_last + 1_000 && t1 + MARGIN < *t_first + DAY {
                    if must_find_applies {
                        v.hit("must_find");
                        if !got.contains(contact) {
                            v.violate("C01", "announced_peer_not_found", t1, format!("node {} searched from {} to {t1} ms; {contact} was announced (stored {}..{} ms) and is less than 24 h old, but was not yielded (yielded: {:?})", s.node, s.t0, t_first, t_last, got));
                        }
                    } else {
                        v.hit("edge_latency_bucket_not_judged_for_must_find");
                    }
                    if s.t0 - t_first > 12 * 3_600_000 {
                        v.hit("found_after_12h");
                    }
                } else if s.t0 > *t_last + DAY + MARGIN {
                    v.hit("must_not_find");
                    if got.contains(contact) {
                        v.violate("C01", "expired_peer_found", t1, format!("node {} searched at {} ms and was given {contact}, whose last announce was stored at {t_last} ms, more than 24 h earlier", s.node, s.t0));
                    }
                }
            }
            samples.push(json!({"node": s.node, "announce": s.announce, "issued_ms": s.t0, "ended_ms": t1, "items": s.items.len(), "known_announcers": s.snap.len()}));
        }
        if n == 2 {
            v.hit("two_node_network");
        }
        if sc.param("look_then_announce") != 0 {
            v.hit("same_node_searches_then_announces_same_hash");
        }
        if n == 9 {
            v.hit("nine_node_network");
        }
        if sc.param("star") != 0 {
            v.hit("star_topology");
        }
        if sc.reals.iter().any(|r| r.announce_port.is_some()) {
            v.hit("explicit_announce_port");
        }
        if sc.reals[0].addr.is_ipv6() {
            v.hit("ipv6");
        }
        v.nontrivial = judged > 0;
        v.sample = json!({"nodes": n, "lat_max_ms": sc.net.lat_max_ms, "long": sc.param("long"), "virtual_hours": run.end_ms / 3_600_000, "searches": samples});
        v
    }
    fn rule(&self) -> &'static str {
        "2..9 real serving nodes (IPv4 or IPv6, random or clustered ids, announce port set or not) that all know each other (full mesh, or a star at low latency; verified through load_contacts before the workload, else the run is not judged), loss-free with per-datagram latency uniform in [0, L], L in {0,5,50,300,700,1000} ms; the workload starts 20 s, 31..45 min or 1..3 h after start-up; 1..3 announcing searches for 1..2 info-hashes (1 in 4 preceded, 0..2 s earlier, by a non-announcing search for the same hash on the same node), then 1..4 searches from other nodes at an offset of 1 s .. 2 h (runs 32..43 quick / 32..191 thorough are day-long histories: offsets 12 h, 24 h -+ 1 min / 1 h, 1..2 info-hashes announced, one of them re-announced after 1 h / half-way / 23 h, searches on both sides of the 24 hours of the first announce and of the re-announce, a searcher after 36 h). Model: per (info-hash, contact) the acknowledged announce times per storing node. non-trivial = at least one (search, announced contact of another node) pair judged; distinct = distinct order digests"
    }
    fn assumptions(&self) -> Vec<&'static str> {
        vec!["must-find is applied only for L <= 700 ms (RTT below the 1.5 s query lifetime) and searches starting >= 1 s after the announce was stored; L = 1000 ms runs are judged for fabrication and expiry only", "10 s margin around the 24 h edge (the exact edge is C07's)"]
    }
    fn required_reach(&self) -> Vec<&'static str> {
        vec!["must_find", "must_find_after_announcing_search_ended", "announce_after_idle_half_hour", "must_not_find", "found_after_12h", "two_node_network", "same_node_searches_then_announces_same_hash", "nine_node_network", "star_topology", "explicit_announce_port", "ipv6"]
    }
}

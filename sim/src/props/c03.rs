//! C03 — searches never fabricate peers, tokens or announce targets on hostile networks.

use super::common::*;
use super::{Property, Tier, Verdict};
use crate::entropy::Rng;
use crate::exec::{ForgeFrom, ForgeTid, Op, RunLog, Scenario};
use crate::krpc::{id20, parse_values, Msg};
use crate::log::{ApiEv, Ev};
use crate::stubs::{Answer, NodeRef, NodesMode, ReplyKind, StubCfg};
use serde_json::json;
use std::collections::BTreeMap;
use std::net::SocketAddr;

pub struct C03;

const Q_MS: u64 = 1500;

pub struct Resp {
    pub t: u64,
    pub tid: Vec<u8>,
    pub src: SocketAddr,
    pub id: Option<[u8; 20]>,
    pub values: Vec<SocketAddr>,
    pub token: Option<Vec<u8>>,
    /// 2 = acceptable for sure, 1 = edge (may go either way), 0 = must not be accepted
    pub class: u8,
}

pub struct Search {
    pub node: usize,
    pub step: usize,
    pub ih: [u8; 20],
    pub announce: bool,
    pub t_call: u64,
    pub t_end: Option<u64>,
    pub items: Vec<(u64, SocketAddr)>,
    /// tid -> send time of the get_peers query
    pub queries: BTreeMap<Vec<u8>, u64>,
    pub resps: Vec<Resp>,
    /// (t, dst, token, info_hash)
    pub announces: Vec<(u64, SocketAddr, Vec<u8>, Option<[u8; 20]>)>,
}

/// Attribution of wire traffic to searches. A response is attributed to the search that sent a
/// get_peers query with exactly that transaction id; it is acceptable if it is the first one for
/// that id, arrives no later than 1.5 s after the query (end-game queries are sent 1.5 s before
/// the close, so the same bound covers them) and before the stream closed. +-1 ms = edge.
pub fn reconstruct(sc: &Scenario, run: &RunLog) -> Vec<Search> {
    let mut out: Vec<Search> = Vec::new();
    let stalls = sc.net.stall_ppm > 0
        || sc.net.explicit.as_ref().map(|l| l.iter().any(|f| matches!(f.kind, crate::net::FaultKind::Stall { .. }))).unwrap_or(false);
    let addr_of: Vec<SocketAddr> = sc.reals.iter().map(|r| r.addr).collect();
    // With a stalled socket the handler can be busy for seconds: a datagram delivered at t is
    // processed later, possibly after queries that were sent after t. In stall runs a response is
    // therefore also attributed to a query of the same search sent AFTER its delivery ("either way").
    let mut later_queries: BTreeMap<(usize, Vec<u8>), u64> = BTreeMap::new();
    if stalls {
        for e in &run.log {
            if let Ev::Send { t, src, bytes, .. } = e {
                if let Some(ni) = addr_of.iter().position(|a| a == src) {
                    if let Some(m) = Msg::parse(bytes) {
                        if m.qname() == Some("get_peers") {
                            later_queries.entry((ni, m.t.clone())).or_insert(*t);
                        }
                    }
                }
            }
        }
    }
    for e in &run.log {
        match e {
            Ev::Api { t, step, ev } => match ev {
                ApiEv::SearchStart { node, ih, announce } => out.push(Search {
                    node: *node,
                    step: *step,
                    ih: *ih,
                    announce: *announce,
                    t_call: *t,
                    t_end: None,
                    items: vec![],
                    queries: BTreeMap::new(),
                    resps: vec![],
                    announces: vec![],
                }),
                ApiEv::SearchItem { addr } => {
                    if let Some(s) = out.iter_mut().find(|s| s.step == *step) {
                        s.items.push((*t, *addr));
                    }
                }
                ApiEv::SearchEnd => {
                    if let Some(s) = out.iter_mut().find(|s| s.step == *step) {
                        s.t_end = Some(*t);
                    }
                }
                _ => {}
            },
            Ev::Send { t, src, dst, bytes, .. } => {
                if let Some(ni) = addr_of.iter().position(|a| a == src) {
                    if let Some(m) = Msg::parse(bytes) {
                        let a = match m.args() {
                            Some(a) => a.clone(),
                            None => continue,
                        };
                        let ih = a.get("info_hash").and_then(id20);
                        let q = m.qname().unwrap_or("").to_string();
                        if let Some(s) = out.iter_mut().rev().find(|s| s.node == ni && Some(s.ih) == ih && s.t_call <= *t) {
                            if q == "get_peers" && s.t_end.is_none() {
                                s.queries.insert(m.t.clone(), *t);
                            } else if q == "announce_peer" {
                                s.announces.push((*t, *dst, a.get("token").and_then(|x| x.as_bytes()).unwrap_or(&[]).to_vec(), ih));
                            }
                        }
                    }
                }
            }
            // attribution uses the instant (and order) at which the node took the datagram off its
            // socket, not the instant the network delivered it
            Ev::Recv { t, src, dst, bytes, corrupted, .. } => {
                if let Some(ni) = addr_of.iter().position(|a| a == dst) {
                    let cut = &bytes[..bytes.len().min(1500)];
                    if let Some(m) = Msg::parse_lenient(cut) {
                        if let Some(r) = m.resp() {
                            for s in out.iter_mut().filter(|s| s.node == ni) {
                                let early = !s.queries.contains_key(&m.t) && s.t_end.is_none() && later_queries.get(&(ni, m.t.clone())).map(|tq| *tq >= s.t_call).unwrap_or(false);
                                if early {
                                    // delivered before its query was sent, processed who knows when
                                    s.resps.push(Resp {
                                        t: *t,
                                        tid: m.t.clone(),
                                        src: *src,
                                        id: r.get("id").and_then(id20),
                                        values: r.get("values").and_then(parse_values).unwrap_or_default(),
                                        token: r.get("token").and_then(|x| x.as_bytes()).map(|b| b.to_vec()),
                                        class: 1,
                                    });
                                    continue;
                                }
                                if let Some(tq) = s.queries.get(&m.t).copied() {
                                    let closed = s.t_end.map(|te| *t > te).unwrap_or(false);
                                    // a stalled socket keeps the handler busy, so a time-out can be
                                    // handled late and a late response still finds its query
                                    // outstanding: lateness is then only an edge case
                                    let class = if closed || (*t > tq + Q_MS + 1 && !stalls) {
                                        0
                                    } else if *t > tq + Q_MS + 1 {
                                        1
                                    } else if *t + 1 >= tq + Q_MS || s.t_end.map(|te| *t + 1 >= te).unwrap_or(false) {
                                        1
                                    } else {
                                        2
                                    };
                                    // a datagram corrupted in flight may or may not have been decodable
                                    // for the node (the oracle's parser is deliberately more lenient):
                                    // it may have been accepted, and it may have left its id outstanding
                                    let class = if *corrupted && class == 2 { 1 } else { class };
                                    s.resps.push(Resp {
                                        t: *t,
                                        tid: m.t.clone(),
                                        src: *src,
                                        id: r.get("id").and_then(id20),
                                        values: r.get("values").and_then(parse_values).unwrap_or_default(),
                                        token: r.get("token").and_then(|x| x.as_bytes()).map(|b| b.to_vec()),
                                        class,
                                    });
                                }
                            }
                        }
                    }
                }
            }
            _ => {}
        }
    }
    // A search that is still open when its close is logged later: responses delivered at the very
    // instant of the close are edge cases (handled above through t_end only if it was known);
    // re-classify now that every t_end is known.
    for s in out.iter_mut() {
        if let Some(te) = s.t_end {
            for r in s.resps.iter_mut() {
                if r.t > te {
                    r.class = 0;
                } else if r.t + 1 >= te && r.class == 2 {
                    r.class = 1;
                }
            }
        }
        // duplicates count once
        let mut seen: BTreeMap<Vec<u8>, u8> = BTreeMap::new();
        for r in s.resps.iter_mut() {
            match seen.get(&r.tid).copied() {
                None => {
                    if r.class > 0 {
                        seen.insert(r.tid.clone(), r.class);
                    }
                }
                Some(2) => r.class = 0,
                Some(_) => {
                    if r.class == 2 {
                        r.class = 1;
                    }
                }
            }
        }
    }
    out
}

/// Clauses (a) and (b) of C03 on one reconstructed search. Returns (clause, t, detail).
pub fn judge(s: &Search) -> Vec<(&'static str, u64, String)> {
    let mut out = Vec::new();
    // (a) every yielded address is attributable, one-to-one, to a value of an acceptable response
    let mut pool: Vec<SocketAddr> = s.resps.iter().filter(|r| r.class > 0).flat_map(|r| r.values.iter().copied()).collect();
    for (t, item) in &s.items {
        if let Some(pos) = pool.iter().position(|a| a == item) {
            pool.swap_remove(pos);
        } else {
            let rejected = s.resps.iter().find(|r| r.class == 0 && r.values.contains(item));
            let why = match rejected {
                Some(r) => format!("it only occurs in a response from {} delivered at {} ms that must not be accepted (late, duplicate or after the close)", r.src, r.t),
                None => "no response to an outstanding get_peers query of this search carried it".to_string(),
            };
            out.push(("fabricated_peer", *t, format!("search stream yielded {item}: {why}")));
            break;
        }
    }
    // (b) announces
    if !s.announce && !s.announces.is_empty() {
        out.push(("announced_without_request", s.announces[0].0, format!("{} announce_peer datagrams although announcing was not requested", s.announces.len())));
    }
    if s.announces.len() > 8 {
        out.push(("announce_more_than_8", s.announces[8].0, format!("{} announce_peer datagrams for one search", s.announces.len())));
    }
    for (t, dst, token, ih) in &s.announces {
        if *ih != Some(s.ih) {
            out.push(("announce_wrong_info_hash", *t, format!("announce_peer to {dst} carries another info-hash")));
        }
        // token-bearing acceptable responses from that address, grouped by responder id
        let mut by_id: BTreeMap<Option<[u8; 20]>, Vec<&Resp>> = BTreeMap::new();
        for r in s.resps.iter().filter(|r| r.class > 0 && r.src == *dst && r.token.is_some() && r.t <= *t) {
            by_id.entry(r.id).or_default().push(r);
        }
        if by_id.is_empty() {
            out.push(("announce_to_stranger", *t, format!("announce_peer sent to {dst}, which never answered this search with a token")));
            continue;
        }
        // allowed: for some responder id at that address, a token with no later definitely-accepted token
        let mut ok = false;
        for (_, list) in &by_id {
            for (i, r) in list.iter().enumerate() {
                let superseded = list[i + 1..].iter().any(|l| l.class == 2);
                if !superseded && r.token.as_deref() == Some(&token[..]) {
                    ok = true;
                }
            }
        }
        if !ok {
            out.push(("announce_stale_or_foreign_token", *t, format!("announce_peer to {dst} does not carry the latest token that node gave this search")));
        }
    }
    out
}

impl Property for C03 {
    fn id(&self) -> &'static str {
        "C03"
    }
    fn level(&self) -> &'static str {
        "fault_enumeration"
    }
    fn runs(&self, tier: Tier) -> u64 {
        match tier {
            Tier::Quick => 3_000,
            Tier::Thorough => 150_000,
        }
    }
    fn generate(&self, seed: u64, idx: u64, _tier: Tier) -> Scenario {
        let mut rng = Rng::new(seed ^ 0xC03 ^ idx.wrapping_mul(0x9E37_79B9_7F4A_7C15));
        let mut sc = Scenario::new("c03");
        sc.entropy_seed = rng.next();
        sc.tokio_seed = rng.next();
        let v6 = rng.chance(1, 3);
        sc.world.v6 = v6;
        // pure safety property: every message fault kind is on (in most runs)
        let faults = !rng.chance(1, 6);
        sc.net = swarm_net(&mut rng, &[0, 5, 50, 300, 700, 1000], faults);
        sc.net.check_table_shape = true;
        let t_search = 15_000u64;
        if faults {
            // keep bootstrap mostly clean so that searches have somebody to talk to
            sc.net.fault_from_ms = if rng.chance(1, 3) { 0 } else { t_search - 500 };
            sc.net.fault_to_ms = t_search + 600_000;
        }
        let n_real = rng.range(1, 2) as usize;
        let n = rng.range(2, 25) as usize;
        let ihs: Vec<[u8; 20]> = (0..3).map(|_| rng.id20()).collect();
        let mut peer_no = 0u32;
        for i in 0..n {
            let mut s = StubCfg::honest(stub_addr(v6, i), rng.id20());
            match rng.below(12) {
                0 => s.get_peers_answer = Some(Answer::Never),
                1 => s.delay_ms = *rng.pick(&[1_000u64, 1_450, 1_499, 1_500, 1_501, 1_600, 2_500, 4_000]),
                2 => s.reply = ReplyKind::WrongTid,
                3 => s.reply = ReplyKind::Garbage,
                4 => s.answer = Answer::Windows(vec![(0, t_search + rng.range(0, 3_000)), (t_search + rng.range(3_000, 6_000), u64::MAX)]),
                5 => {
                    // names the victim itself, duplicates and unreachable nodes
                    let victim = real_addr(v6, 0);
                    let dup = rng.id20();
                    s.nodes = NodesMode::ClosestPlus(vec![
                        NodeRef { id: [0u8; 20], addr: victim },
                        NodeRef { id: dup, addr: addr(v6, 3, 900, 1) },
                        NodeRef { id: dup, addr: addr(v6, 3, 901, 1) },
                        NodeRef { id: rng.id20(), addr: addr(v6, 3, 902, 1) },
                    ]);
                }
                _ => {}
            }
            for ih in &ihs {
                if rng.chance(1, 3) {
                    peer_no += 1;
                    s.peers.push((*ih, vec![addr(v6, 4, peer_no, 9000)]));
                }
            }
            sc.world.stubs.push(s);
        }
        // the same node id at two addresses (a node that moved, or an impostor): one of them answers
        // with a token, the other is silent or answers without being asked
        if rng.chance(1, 3) && n >= 2 {
            let twin_of = rng.below(n as u64) as usize;
            let mut twin = StubCfg::honest(stub_addr(v6, 300), sc.world.stubs[twin_of].id);
            match rng.below(3) {
                0 => twin.answer = Answer::Never,
                1 => twin.get_peers_answer = Some(Answer::Never),
                _ => {}
            }
            if rng.chance(1, 2) {
                // and the original goes silent for get_peers instead
                sc.world.stubs[twin_of].get_peers_answer = Some(Answer::Never);
            }
            sc.world.stubs.push(twin);
            sc.params.insert("twin".into(), 1);
        }
        for r in 0..n_real {
            let mut real = default_real(v6, r, &mut rng);
            real.read_only = rng.chance(1, 2);
            for i in 0..n.min(6) {
                real.nodes.push(sc.world.stubs[(i + r) % n].addr);
            }
            sc.reals.push(real);
        }
        if n_real == 2 && rng.chance(1, 2) {
            let a0 = sc.reals[0].addr;
            sc.reals[1].nodes.push(a0);
        }
        start_all(&mut sc, 0);
        // 1..3 concurrent searches per node, different info-hashes
        let mut search_times: Vec<(usize, [u8; 20], u64)> = Vec::new();
        for r in 0..n_real {
            let k = rng.range(1, 3) as usize;
            for j in 0..k {
                let t = t_search + *rng.pick(&[0u64, 0, 200, 1_600, 4_000]);
                sc.at(t, Op::Search { node: r, ih: ihs[j], announce: rng.chance(1, 2) });
                search_times.push((r, ihs[j], t));
            }
        }
        // the adversary
        let n_forge = if rng.chance(1, 5) { 0 } else { rng.range(1, 25) };
        let mut fake_no = 0u32;
        for _ in 0..n_forge {
            let (r, ih, t) = *rng.pick(&search_times);
            let other = search_times.iter().filter(|x| x.0 == r && x.1 != ih).map(|x| x.1).next();
            let tid = match rng.below(9) {
                0 | 1 | 2 => ForgeTid::LatestGetPeers { ih },
                3 => ForgeTid::NthGetPeers { ih, n: rng.below(6) as usize },
                4 => match other {
                    Some(o) => ForgeTid::LatestGetPeers { ih: o },
                    None => ForgeTid::LatestFindNode,
                },
                5 => ForgeTid::LatestFindNode,
                6 => ForgeTid::Bytes(rng.bytes(8)),
                7 => ForgeTid::Bytes(rng.bytes_in(0, 12)),
                _ => {
                    // 8 bytes with a high action prefix (never handed out)
                    let mut b = rng.bytes(8);
                    b[0] |= 0x80;
                    ForgeTid::Bytes(b)
                }
            };
            let from = match rng.below(3) {
                0 => ForgeFrom::Queried,
                1 => ForgeFrom::Addr(addr(v6, 3, rng.range(1, 5) as u32, 6666)),
                _ => ForgeFrom::Addr(sc.world.stubs[rng.below(n as u64) as usize].addr),
            };
            let values: Vec<SocketAddr> = (0..rng.range(0, 3))
                .map(|_| {
                    fake_no += 1;
                    addr(v6, 3, 10_000 + fake_no, 6666)
                })
                .collect();
            let nodes: Vec<([u8; 20], SocketAddr)> = (0..rng.range(0, 8)).map(|k| (rng.id20(), addr(v6, 3, 20_000 + k as u32, 1))).collect();
            let when = t + rng.range(0, 6_000);
            sc.at(when, Op::Forge { node: r, tid, from, responder_id: rng.id20(), values, token: if rng.chance(2, 3) { Some(rng.bytes(20)) } else { None }, nodes });
        }
        sc.end_ms = t_search + 700_000;
        sc
    }

    fn sweep(&self, sc: &Scenario, base: &RunLog, tier: Tier) -> Vec<Scenario> {
        if sc.entropy_seed % 16 != 0 || sc.net.any_random_faults() {
            return vec![];
        }
        let cap = match tier {
            Tier::Quick => 10,
            Tier::Thorough => 100,
        };
        let all = single_fault_variants(sc, base, &["drop", "delay", "dup", "corrupt"], 4_000, 1_600);
        // faults on search traffic only
        all.into_iter()
            .filter(|v| {
                v.net.explicit.as_ref().and_then(|e| e.first()).map(|f| {
                    base.log.iter().any(|ev| matches!(ev, Ev::Send { src, dst, ord, bytes, .. } if *src == f.src && *dst == f.dst && *ord == f.ord && {
                        let m = Msg::parse(bytes);
                        m.as_ref().map(|m| m.qname() == Some("get_peers") || (m.is_response() && m.resp().and_then(|r| r.get("token")).is_some())).unwrap_or(false)
                    }))
                }).unwrap_or(false)
            })
            .take(cap * 4)
            .collect()
    }

    fn check(&self, sc: &Scenario, run: &RunLog) -> Verdict {
        let mut v = Verdict::default();
        for p in &run.panics {
            v.violate("C03", "panic", 0, format!("a task panicked: {p}"));
        }
        let searches = reconstruct(sc, run);
        let mut samples = Vec::new();
        for s in &searches {
            for (clause, t, detail) in judge(s) {
                v.violate("C03", clause, t, detail);
            }
            if !s.items.is_empty() {
                v.hit("items_yielded");
            }
            if !s.announces.is_empty() {
                v.hit("announces_sent");
            }
            if s.resps.iter().any(|r| r.class == 0) {
                v.hit("response_that_must_be_ignored");
            }
            if s.resps.iter().any(|r| r.class == 1) {
                v.hit("edge_response");
            }
            samples.push(json!({"node": s.node, "issued_ms": s.t_call, "closed_ms": s.t_end, "queries": s.queries.len(), "responses_attributed": s.resps.len(), "items": s.items.len(), "announces": s.announces.len()}));
        }
        if searches.len() > 1 {
            v.hit("concurrent_searches");
        }
        if sc.param("twin") != 0 {
            v.hit("same_id_at_two_addresses");
        }
        if run.stats.get("fault_forge").copied().unwrap_or(0) > 0 {
            v.hit("forged_responses");
        }
        v.nontrivial = searches.iter().any(|s| !s.queries.is_empty());
        v.sample = json!({"stubs": sc.world.stubs.len(), "reals": sc.reals.len(), "searches": samples, "forged": run.stats.get("fault_forge"), "lat_max_ms": sc.net.lat_max_ms});
        v
    }
    fn rule(&self) -> &'static str {
        "1..2 real nodes, each with 1..3 concurrent searches for different info-hashes (with/without announce), 2..25 stubs (honest, silent, late around 1.5 s, wrong-id, garbage, crashing and restarting, naming the victim / duplicates / unreachable nodes; in one run of three one node id lives at two addresses of which one may be silent), an adversary forging 0..25 responses from the wire tap (id of this search, of a concurrent search, of refresh/bootstrap, replayed, random/short/long/high-prefix ids; from the queried address or elsewhere), and every message fault kind (drop, delay up to 5 s, duplicate, reorder, corrupt, send errors, stalls) at swarm-drawn rates, plus a single-fault sweep on fault-free base runs. non-trivial = a search sent at least one query; distinct = distinct order digests"
    }
    fn assumptions(&self) -> Vec<&'static str> {
        vec!["responses arriving within +-1 ms of a 1.5 s deadline or of the close may go either way", "forged values are globally unique addresses, so every yielded item is attributable"]
    }
    fn required_reach(&self) -> Vec<&'static str> {
        vec!["items_yielded", "announces_sent", "response_that_must_be_ignored", "edge_response", "concurrent_searches", "forged_responses", "same_id_at_two_addresses"]
    }
}

//! C05 — each well-formed query gets exactly one correct reply; nothing else is answered.

use super::common::*;
use super::{Property, Tier, Verdict};
use crate::entropy::Rng;
use crate::exec::{Op, ProbeMsg, RunLog, Scenario, TokenSpec, When};
use crate::krpc::{self, id20, parse_compact_nodes, parse_values, well_formed_query, Kind, Val};
use crate::stubs::StubCfg;
use serde_json::json;
use std::collections::{BTreeMap, BTreeSet};
use std::net::{IpAddr, SocketAddr};

pub struct C05;

fn with_extras(mut m: Val, rng: &mut Rng) -> Val {
    // BEP-listed keys this implementation does not know
    if rng.chance(1, 3) {
        m.set("v", Val::Bytes(rng.bytes(4)));
    }
    if rng.chance(1, 4) {
        m.set("ro", Val::Int(rng.below(2) as i64));
    }
    if rng.chance(1, 6) {
        m.set("ip", Val::Bytes(rng.bytes(6)));
    }
    m
}

impl Property for C05 {
    fn id(&self) -> &'static str {
        "C05"
    }
    fn runs(&self, tier: Tier) -> u64 {
        match tier {
            Tier::Quick => 2_000,
            Tier::Thorough => 100_000,
        }
    }
    fn generate(&self, seed: u64, idx: u64, _tier: Tier) -> Scenario {
        let mut rng = Rng::new(seed ^ 0xC05 ^ idx.wrapping_mul(0x9E37_79B9_7F4A_7C15));
        let mut sc = Scenario::new("c05");
        sc.entropy_seed = rng.next();
        sc.tokio_seed = rng.next();
        let v6 = rng.chance(1, 3);
        sc.world.v6 = v6;
        sc.net = swarm_net(&mut rng, &[0, 5, 50, 300], false);
        // duplication and reordering of probe traffic are part of "arbitrary interleavings"
        if rng.chance(1, 3) {
            sc.net.dup_ppm = *rng.pick(&[20_000, 100_000]);
        }
        let mut real = default_real(v6, 0, &mut rng);
        real.read_only = rng.chance(1, 4);
        let own = real.id.unwrap();
        let node = real.addr;
        for i in 0..rng.range(0, 12) as usize {
            let s = StubCfg::honest(stub_addr(v6, i), id_with_lcp(&own, rng.below(6) as usize, &mut rng));
            real.nodes.push(s.addr);
            sc.world.stubs.push(s);
        }
        sc.reals.push(real);
        sc.at(0, Op::Start { node: 0 });
        let mut tids = Tids(0);
        let pid = rng.id20();
        let ihs: Vec<[u8; 20]> = (0..3).map(|_| rng.id20()).collect();
        let mut t = 4_000u64;
        // prefill the store (rarely: to the brim, so that 202 is exercised)
        let prefill = if rng.chance(1, 25) { 500 } else { rng.range(0, 12) as usize };
        for k in 0..prefill {
            let fam6 = if rng.chance(1, 5) { !v6 } else { v6 };
            let src = addr(fam6, 2, 1000 + k as u32, 20_000);
            announce_chain(&mut sc, &mut tids, When::At(t), src, node, &pid, rng.pick(&ihs), if k % 2 == 0 { None } else { Some(7000 + k as u16) });
            t += 10;
        }
        t += 1_000;
        // a full store a day later: some of the oldest pairs re-announce hours after the fill; more
        // than 24 h after the fill (everything not renewed has expired) the probe phase below runs
        // and its announces must be acknowledged, not refused as "full"
        if prefill == 500 && rng.chance(1, 2) {
            let renew_at = t + rng.range(3_600_000, 20 * 3_600_000);
            for k in 0..rng.range(1, 4) as usize {
                let fam6 = v6;
                let _ = fam6;
                let src = addr(v6, 2, 1000 + k as u32, 20_000);
                announce_chain(&mut sc, &mut tids, When::At(renew_at + 10 * k as u64), src, node, &pid, &ihs[0], None);
                announce_chain(&mut sc, &mut tids, When::At(renew_at + 10 * k as u64 + 5), src, node, &pid, &ihs[1], None);
                announce_chain(&mut sc, &mut tids, When::At(renew_at + 10 * k as u64 + 8), src, node, &pid, &ihs[2], None);
            }
            t += 86_400_000 + 120_000;
            // (a day-long run is affordable only on a node that does not re-bootstrap every 5 s)
            sc.reals[0].nodes.clear();
            sc.world.stubs.clear();
            sc.params.insert("day_after_full_store".into(), 1);
        }
        // the probe phase
        let n_msgs = rng.range(10, 80);
        let mut gets: Vec<(usize, SocketAddr)> = Vec::new();
        let mut used_tids: BTreeSet<(IpAddr, u16, Vec<u8>)> = BTreeSet::new();
        for _ in 0..n_msgs {
            let fam6 = if rng.chance(1, 5) { !v6 } else { v6 };
            let from = addr(fam6, 2, rng.range(1, 6) as u32, 20_000 + rng.below(3) as u16);
            // transaction ids are unique per source address within a run (otherwise attribution of a
            // reply to one of two different outstanding queries would be ambiguous)
            let mut tid: Vec<u8>;
            loop {
                tid = match rng.below(6) {
                    0 => vec![],
                    1 => rng.bytes(1),
                    2 => rng.bytes(2),
                    3 => rng.bytes(8),
                    4 => rng.bytes(32),
                    _ => rng.bytes_in(0, 32),
                };
                if used_tids.insert((from.ip(), from.port(), tid.clone())) {
                    break;
                }
            }
            let want: Option<Val> = match rng.below(5) {
                0 => Some(Val::List(vec![Val::str("n4")])),
                1 => Some(Val::List(vec![Val::str("n6")])),
                2 => Some(Val::List(vec![Val::str("n4"), Val::str("n6")])),
                _ => None,
            };
            let ih = *rng.pick(&ihs);
            let target = match rng.below(4) {
                0 => own,
                1 => krpc::flip_bit(&own, rng.below(160) as usize),
                // an id for which peers are stored: a find_node reply must still carry no values
                2 => ih,
                _ => rng.id20(),
            };
            let mut args = Val::dict().with("id", Val::bytes(&pid));
            let kind = rng.below(14);
            let msg: ProbeMsg = match kind {
                0 | 1 => ProbeMsg::Bytes(with_extras(krpc::query(&tid, "ping", args).to_val(), &mut rng).encode()),
                2 | 3 => {
                    args.set("target", Val::bytes(&target));
                    if let Some(w) = want {
                        args.set("want", w);
                    }
                    ProbeMsg::Bytes(with_extras(krpc::query(&tid, "find_node", args).to_val(), &mut rng).encode())
                }
                4 | 5 | 6 => {
                    args.set("info_hash", Val::bytes(&ih));
                    if let Some(w) = want {
                        args.set("want", w);
                    }
                    if rng.chance(1, 4) {
                        args.set("noseed", Val::Int(1));
                        args.set("scrape", Val::Int(1));
                    }
                    ProbeMsg::Bytes(with_extras(krpc::query(&tid, "get_peers", args).to_val(), &mut rng).encode())
                }
                7 | 8 | 9 => {
                    // announce_peer: right token (from an earlier get_peers of the same address), wrong token, wrong length
                    let port = if rng.chance(1, 2) { Some(rng.range(1, 65535) as u16) } else { None };
                    let same: Vec<usize> = gets.iter().filter(|(_, a)| a.ip() == from.ip()).map(|(g, _)| *g).collect();
                    let token = match rng.below(4) {
                        0 => TokenSpec::Bytes(rng.bytes(20)),
                        1 => TokenSpec::Bytes(rng.bytes_in(0, 40)),
                        _ if !same.is_empty() => TokenSpec::FromStep(*rng.pick(&same)),
                        _ => TokenSpec::Bytes(rng.bytes(20)),
                    };
                    ProbeMsg::Announce { tid: tid.clone(), id: pid, ih, port, token }
                }
                10 => {
                    // a response (never to be answered), possibly with an 8-byte id
                    let r = Val::dict().with("id", Val::bytes(&pid)).with("token", Val::Bytes(rng.bytes(20)));
                    ProbeMsg::Bytes(krpc::response(&tid, r).encode())
                }
                11 => ProbeMsg::Bytes(krpc::error(&tid, 201 + rng.below(4) as i64, "oops").encode()),
                12 => {
                    // undecodable bytes: random, or a valid message cut short
                    if rng.chance(1, 2) {
                        ProbeMsg::Bytes(rng.bytes_in(0, 200))
                    } else {
                        let m = super::c14::valid_message(&mut rng, v6);
                        let k = rng.below(m.len() as u64) as usize;
                        ProbeMsg::Bytes(m[..k].to_vec())
                    }
                }
                _ => {
                    // decodable dictionary that is not a well-formed query
                    match rng.below(4) {
                        0 => ProbeMsg::Bytes(krpc::query(&tid, "vote", args.with("target", Val::bytes(&target))).encode()),
                        1 => ProbeMsg::Bytes(krpc::query(&tid, "find_node", args).encode()),
                        2 => ProbeMsg::Bytes(krpc::query(&tid, "get_peers", Val::dict().with("id", Val::Bytes(rng.bytes(19))).with("info_hash", Val::bytes(&ih))).encode()),
                        _ => ProbeMsg::Bytes(krpc::query(&tid, "ping", Val::dict()).encode()),
                    }
                }
            };
            let is_get = (4..=6).contains(&kind);
            let s = step(&mut sc, When::At(t), Op::Probe { from, to: node, msg, timeout_ms: if is_get { 3_000 } else { 0 } });
            if is_get {
                gets.push((s, from));
            }
            t += match rng.below(4) {
                0 => 0,
                1 => rng.range(1, 50),
                2 => rng.range(50, 2_000),
                _ => rng.range(2_000, 20_000),
            };
        }
        // the socket reports errors now and then (ICMP port unreachable surfacing as ECONNRESET and
        // the like): the node must go on serving
        if rng.chance(1, 3) {
            let n_err = rng.range(1, 6);
            for _ in 0..n_err {
                sc.at(rng.range(1_000, t.max(2_000)), Op::RecvErr { node: 0, count: rng.range(1, 2) as u32 });
            }
            sc.params.insert("recv_errors".into(), n_err as i64);
        }
        sc.end_ms = t + 30_000;
        sc.params.insert("prefill".into(), prefill as i64);
        sc
    }

    fn check(&self, sc: &Scenario, run: &RunLog) -> Verdict {
        let mut v = Verdict::default();
        let real = &sc.reals[0];
        let node = real.addr;
        let own = real.id.unwrap();
        let v6 = node.is_ipv6();
        let (pairs, orphans, open) = pair_replies(&run.log, node);
        for o in &orphans {
            v.violate("C05", if real.read_only { "readonly_replied" } else { "reply_without_query" }, o.t, format!("node sent {} (t={}) to {} which matches no delivered, unanswered query", o.msg.as_ref().map(|m| m.tag()).unwrap_or_default(), krpc::hex(&o.msg.as_ref().map(|m| m.t.clone()).unwrap_or_default()), o.dst));
        }
        if real.read_only {
            for (q, r) in &pairs {
                v.violate("C05", "readonly_replied", r.t, format!("read-only node answered {} from {}", q.msg.as_ref().map(|m| m.tag()).unwrap_or_default(), q.src));
            }
            v.nontrivial = open.iter().any(|q| q.msg.as_ref().map(well_formed_query).unwrap_or(false));
            v.hit("read_only_run");
            v.sample = json!({"read_only": true, "queries_delivered": open.len()});
            return v;
        }
        if sc.param("day_after_full_store") != 0 {
            v.hit("probes_a_day_after_the_store_was_full");
        }
        if run.stats.get("fault_recv_err").copied().unwrap_or(0) >= 3 {
            v.hit("three_or_more_recv_errors");
        }
        for q in &open {
            if q.msg.as_ref().map(well_formed_query).unwrap_or(false) && q.t + 5_000 < run.end_ms {
                v.violate("C05", "query_unanswered", q.t, format!("well-formed {} (t={}) from {} got no reply", q.msg.as_ref().unwrap().tag(), krpc::hex(&q.msg.as_ref().unwrap().t), q.src));
            }
        }
        // token + store models (as far as needed to classify announce replies)
        let mut issued: BTreeMap<(Vec<u8>, IpAddr), u64> = BTreeMap::new();
        let mut stored: BTreeMap<([u8; 20], SocketAddr), u64> = BTreeMap::new();
        let mut answered = 0u64;
        for (q, r) in &pairs {
            let qm = q.msg.as_ref().unwrap();
            let rm = r.msg.as_ref().unwrap();
            answered += 1;
            let now = r.t;
            let a = qm.args().cloned().unwrap_or_else(Val::dict);
            let qn = qm.qname().unwrap_or("");
            v.hit(&format!("answered_{qn}"));
            if qm.t.len() > 8 {
                v.hit("long_transaction_id");
            }
            if qm.t.is_empty() {
                v.hit("empty_transaction_id");
            }
            if let Kind::Response { r: rv } = &rm.kind {
                if rv.get("id").and_then(id20) != Some(own) {
                    v.violate("C05", "wrong_id", now, format!("{qn} reply carries id {:?}", rv.get("id").and_then(|x| x.as_bytes()).map(krpc::hex)));
                }
                let has_token = rv.get("token").is_some();
                let has_values = rv.get("values").is_some();
                if qn != "get_peers" && (has_token || has_values) {
                    v.violate("C05", "unexpected_token_or_values", now, format!("{qn} reply carries token={has_token} values={has_values}"));
                }
                if qn == "ping" || qn == "announce_peer" {
                    if rv.get("nodes").is_some() || rv.get("nodes6").is_some() {
                        v.violate("C05", "unexpected_nodes", now, format!("{qn} reply carries a node list"));
                    }
                }
                if qn == "find_node" || qn == "get_peers" {
                    let want: Option<Vec<String>> = a.get("want").and_then(|w| w.as_list()).map(|l| l.iter().filter_map(|x| x.as_bytes()).map(|b| String::from_utf8_lossy(b).to_lowercase()).collect());
                    let (w4, w6) = match &want {
                        Some(w) if w.iter().any(|x| x == "n4" || x == "n6") => (w.iter().any(|x| x == "n4"), w.iter().any(|x| x == "n6")),
                        _ => (!v6, v6),
                    };
                    if want.is_some() {
                        v.hit("want_given");
                    }
                    for (key, wanted, is6) in [("nodes", w4, false), ("nodes6", w6, true)] {
                        if let Some(b) = rv.get(key).and_then(|x| x.as_bytes()) {
                            if !wanted {
                                v.violate("C05", "nodes_unwanted_family", now, format!("{qn} reply carries `{key}` although want={want:?} and the node is {}", if v6 { "IPv6" } else { "IPv4" }));
                            }
                            match parse_compact_nodes(b, is6) {
                                Some(l) => {
                                    if l.len() > 8 {
                                        v.violate("C05", "too_many_nodes", now, format!("`{key}` lists {} nodes", l.len()));
                                    }
                                    if !l.is_empty() {
                                        v.hit("reply_with_nodes");
                                    }
                                }
                                None => v.violate("C05", "bad_nodes_encoding", now, format!("`{key}` has {} bytes", b.len())),
                            }
                        }
                    }
                }
                if qn == "get_peers" {
                    match rv.get("token").and_then(|t| t.as_bytes()) {
                        Some(tok) if tok.len() == 20 => {
                            issued.insert((tok.to_vec(), q.src.ip()), now);
                        }
                        other => v.violate("C05", "bad_token", now, format!("get_peers reply token: {:?} bytes", other.map(|t| t.len()))),
                    }
                    if let Some(vals) = rv.get("values") {
                        match parse_values(vals) {
                            Some(l) => {
                                if l.iter().any(|c| c.is_ipv6() != q.src.is_ipv6()) {
                                    v.violate("C05", "values_wrong_family", now, format!("get_peers reply to {} lists peers of the other family", q.src));
                                }
                                if !l.is_empty() {
                                    v.hit("reply_with_values");
                                }
                            }
                            None => v.violate("C05", "bad_values_encoding", now, "values entries are not 6/18 bytes".into()),
                        }
                    }
                }
            }
            match (&rm.kind, qn) {
                (Kind::Error { code, .. }, "announce_peer") if *code == 202 || *code == 203 => {}
                (Kind::Error { code, .. }, _) => {
                    v.violate("C05", "unexpected_error", now, format!("{qn} answered with error {code}"));
                }
                _ => {}
            }
            if qn == "announce_peer" {
                let tok = a.get("token").and_then(|t| t.as_bytes()).unwrap_or(&[]).to_vec();
                let good = issued.get(&(tok, q.src.ip())).map(|ti| now - ti <= 600_000).unwrap_or(false);
                let known_bad = !issued.keys().any(|(t, _)| Some(&t[..]) == a.get("token").and_then(|t| t.as_bytes()));
                let ih = a.get("info_hash").and_then(id20).unwrap_or([0; 20]);
                let implied = a.get("implied_port").and_then(|x| x.as_int()).unwrap_or(0) != 0;
                let port = a.get("port").and_then(|x| x.as_int()).unwrap_or(0) as u16;
                let contact = if implied { q.src } else { SocketAddr::new(q.src.ip(), port) };
                match &rm.kind {
                    Kind::Response { .. } => {
                        v.hit("announce_acked");
                        if known_bad {
                            v.violate("C05", "bad_token_acked", now, format!("announce_peer from {} with a token this node never issued was acknowledged", q.src));
                        }
                        stored.insert((ih, contact), now);
                    }
                    Kind::Error { code: 203, .. } => {
                        v.hit("announce_203");
                        if good {
                            v.violate("C05", "good_token_203", now, format!("announce_peer from {} with a token issued < 10 min ago refused with 203", q.src));
                        }
                    }
                    Kind::Error { code: 202, .. } => {
                        v.hit("announce_202");
                        // pairs that can still be live (acknowledged less than 24 h + 10 s ago)
                        let maybe_live = stored.values().filter(|ts| now < **ts + 86_400_000 + 10_000).count();
                        if maybe_live < 500 || !good {
                            v.violate("C05", "unexpected_202", now, format!("announce_peer refused with 202 while at most {maybe_live} pairs can be live (token valid: {good})"));
                        }
                    }
                    _ => {}
                }
            }
        }
        v.nontrivial = answered > 0;
        v.sample = json!({"read_only": false, "replies": answered, "prefill": sc.param("prefill"), "stubs": sc.world.stubs.len(), "probe_steps": sc.steps.len()});
        v
    }
    fn rule(&self) -> &'static str {
        "one real node (serving; read-only in 1 of 4 runs) with 0..12 stub contacts and a peer store prefilled by 0..12 (rarely 500) valid announces; 10..80 probe datagrams from several addresses of both families: the four query kinds with want absent/n4/n6/both, explicit/implied port, token right/wrong/wrong length, transaction ids of 0..32 arbitrary bytes, unknown BEP-listed keys, interleaved with responses, errors, hostile byte strings and decodable non-queries, with optional duplication and latency up to 300 ms; trace checker pairs every response/error the node emits with a delivered query. non-trivial = at least one reply (serving) / one well-formed query delivered (read-only); distinct = distinct order digests"
    }
    fn assumptions(&self) -> Vec<&'static str> {
        vec!["'well-formed' is decided by the simulator's independent codec; the generator avoids grey-zone inputs (trailing bytes, non-UTF-8 want entries, missing port)"]
    }
    fn required_reach(&self) -> Vec<&'static str> {
        vec!["answered_ping", "answered_find_node", "answered_get_peers", "answered_announce_peer", "announce_acked", "announce_203", "announce_202", "long_transaction_id", "empty_transaction_id", "want_given", "reply_with_nodes", "reply_with_values", "read_only_run", "three_or_more_recv_errors", "probes_a_day_after_the_store_was_full"]
    }
}

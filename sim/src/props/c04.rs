//! C04 — every search ends, neither early nor never.

use super::common::*;
use super::{Property, Tier, Verdict};
use crate::entropy::Rng;
use crate::exec::{Consume, Op, RunLog, Scenario};
use crate::krpc::{id20, parse_compact_nodes, parse_values, Msg};
use crate::log::{ApiEv, EpKind, Ev, SendOutcome};
use crate::net::{Outage, OutageMode};
use crate::stubs::{Answer, NodesMode, ReplyKind, StubCfg};
use serde_json::json;
use std::collections::{BTreeMap, BTreeSet};
use std::net::SocketAddr;

pub struct C04;

const Q_MS: u64 = 1500;

pub struct SearchView {
    pub step: usize,
    pub ih: [u8; 20],
    pub t_call: u64,
    pub t_end: Option<u64>,
    pub items: Vec<SocketAddr>,
    /// (tid, dst, t_send, on_wire, send_failed)
    pub queries: Vec<(Vec<u8>, SocketAddr, u64, bool, bool)>,
    /// first matching response per tid: tid -> (t, values, handles named)
    pub answers: BTreeMap<Vec<u8>, (u64, Vec<SocketAddr>, usize)>,
    pub told: BTreeSet<([u8; 20], SocketAddr)>,
    /// the caller dropped the stream at t_end (nothing is known about when the lookup ended)
    pub dropped: bool,
    /// the caller did not poll the stream before this instant
    pub poll_from: Option<u64>,
}

/// Reconstruct every search of `node` from the log (searches are told apart by info-hash).
pub fn search_views(sc: &Scenario, run: &RunLog, node_idx: usize) -> Vec<SearchView> {
    let node = sc.reals[node_idx].addr;
    let v6 = node.is_ipv6();
    let mut views: Vec<SearchView> = Vec::new();
    for e in &run.log {
        match e {
            Ev::Api { t, step, ev } => match ev {
                ApiEv::SearchStart { node: n, ih, .. } if *n == node_idx => views.push(SearchView { step: *step, ih: *ih, t_call: *t, t_end: None, items: vec![], queries: vec![], answers: BTreeMap::new(), told: BTreeSet::new(), dropped: false, poll_from: None }),
                ApiEv::SearchItem { addr } => {
                    if let Some(v) = views.iter_mut().find(|v| v.step == *step) {
                        v.items.push(*addr);
                    }
                }
                ApiEv::SearchEnd => {
                    if let Some(v) = views.iter_mut().find(|v| v.step == *step) {
                        v.t_end = Some(*t);
                    }
                }
                ApiEv::SearchDropped => {
                    if let Some(v) = views.iter_mut().find(|v| v.step == *step) {
                        v.t_end = Some(*t);
                        v.dropped = true;
                    }
                }
                ApiEv::Note(n) if n == "poll_start" => {
                    if let Some(v) = views.iter_mut().find(|v| v.step == *step) {
                        v.poll_from = Some(*t);
                    }
                }
                _ => {}
            },
            Ev::Send { t, src, dst, bytes, outcome, .. } if *src == node => {
                if let Some(m) = Msg::parse(bytes) {
                    if m.qname() == Some("get_peers") {
                        let ih = m.args().and_then(|a| a.get("info_hash")).and_then(id20);
                        if let Some(v) = views.iter_mut().rev().find(|v| Some(v.ih) == ih && v.t_call <= *t && (v.dropped || v.t_end.map(|te| te >= *t).unwrap_or(true))) {
                            let failed = matches!(outcome, SendOutcome::SendErr(_));
                            v.queries.push((m.t.clone(), *dst, *t, !failed, failed));
                        }
                    }
                }
            }
            Ev::Deliver { t, src, dst, bytes, dst_kind: EpKind::Real, .. } if *dst == node => {
                let cut = &bytes[..bytes.len().min(1500)];
                if let Some(m) = Msg::parse(cut) {
                    if let Some(r) = m.resp() {
                        for v in views.iter_mut() {
                            if v.t_end.map(|te| te < *t).unwrap_or(false) && !v.dropped {
                                continue;
                            }
                            if v.queries.iter().any(|q| q.0 == m.t) && !v.answers.contains_key(&m.t) {
                                let vals = r.get("values").and_then(parse_values).unwrap_or_default();
                                let named = r.get(if v6 { "nodes6" } else { "nodes" }).and_then(|x| x.as_bytes()).and_then(|b| parse_compact_nodes(b, v6)).unwrap_or_default();
                                for h in &named {
                                    v.told.insert(*h);
                                }
                                v.answers.insert(m.t.clone(), (*t, vals, named.len()));
                                let _ = src;
                            }
                        }
                    }
                }
            }
            _ => {}
        }
    }
    views
}

impl Property for C04 {
    fn id(&self) -> &'static str {
        "C04"
    }
    fn level(&self) -> &'static str {
        "fault_enumeration"
    }
    fn runs(&self, tier: Tier) -> u64 {
        match tier {
            Tier::Quick => 2_500,
            Tier::Thorough => 120_000,
        }
    }
    fn generate(&self, seed: u64, idx: u64, _tier: Tier) -> Scenario {
        let mut rng = Rng::new(seed ^ 0xC04 ^ idx.wrapping_mul(0x9E37_79B9_7F4A_7C15));
        let mut sc = Scenario::new("c04");
        sc.entropy_seed = rng.next();
        sc.tokio_seed = rng.next();
        let v6 = rng.chance(1, 3);
        sc.world.v6 = v6;
        sc.net = swarm_net(&mut rng, &[0, 5, 50, 300, 700], false);
        let mut real = default_real(v6, 0, &mut rng);
        let n = match rng.below(8) {
            0 => 0,
            1 => 1,
            2 | 3 => rng.range(2, 8),
            _ => rng.range(9, 30),
        } as usize;
        let t_search = 20_000u64;
        let ih = rng.id20();
        let scenario_kind = rng.below(8);
        for i in 0..n {
            let mut s = StubCfg::honest(stub_addr(v6, i), rng.id20());
            // all stubs answer find_node during bootstrap; their get_peers behaviour varies
            let mode = if scenario_kind == 0 { 1 } else { rng.below(12) };
            match mode {
                0 | 1 => s.get_peers_answer = Some(Answer::Never),
                2 => s.get_peers_answer = Some(Answer::Pattern { period: rng.range(2, 5) as u32, mask: rng.next() }),
                3 => {
                    s.get_peers_answer = Some(Answer::Always);
                    s.reply = ReplyKind::Normal;
                    s.delay_ms = *rng.pick(&[1_400u64, 1_480, 1_498, 1_499, 1_500, 1_501, 1_502, 1_520, 1_700, 2_900, 3_100]);
                }
                4 => {
                    // answers everything until the search, then goes completely silent
                    s.answer = Answer::SilentFrom(t_search - 1_000);
                }
                5 if scenario_kind == 1 || scenario_kind == 3 => s.nodes = NodesMode::Chain { limit: rng.range(2, 25) as u32 },
                6 => {
                    if rng.chance(1, 2) {
                        s.peers.push((ih, vec![addr(v6, 4, i as u32 + 1, 9000), addr(v6, 4, 1000 + i as u32, 9000)]));
                    }
                }
                _ => {
                    s.peers.push((ih, vec![addr(v6, 4, i as u32 + 1, 9000)]));
                }
            }
            real.nodes.push(s.addr);
            sc.world.stubs.push(s);
        }
        // error / garbage repliers answer get_peers that way but bootstrap normally: model them as
        // separate stubs named by the others but never configured as bootstrap contacts
        if n > 0 && rng.chance(1, 3) {
            for j in 0..rng.range(1, 4) as usize {
                let mut s = StubCfg::honest(stub_addr(v6, 500 + j), id_with_lcp(&ih, rng.range(0, 12) as usize, &mut rng));
                s.reply = if rng.chance(1, 2) { ReplyKind::Error(201 + rng.below(4) as i64) } else { ReplyKind::Garbage };
                sc.world.stubs.push(s);
            }
        }
        if real.nodes.len() > 12 {
            real.nodes.truncate(12);
        }
        sc.reals.push(real);
        let node = sc.reals[0].addr;
        sc.at(0, Op::Start { node: 0 });
        sc.at(0, Op::Bootstrapped { node: 0 });
        // an application watching the node come up: API calls land in the loop turns in which the
        // bootstrap completes (the node then says it is bootstrapped; searches must run)
        if rng.chance(1, 8) {
            let period = *rng.pick(&[1u64, 1, 2, 3]);
            sc.at(0, Op::SampleEvery { node: 0, period_ms: period, count: ((2_000 + 8 * sc.net.lat_max_ms) / period).min(2_500) as u32, table: false });
            sc.params.insert("polling".into(), 1);
        }
        // message loss during the search in some runs (another way of being silent)
        if rng.chance(1, 4) {
            sc.net.drop_ppm = *rng.pick(&[50_000u32, 200_000, 500_000]);
            sc.net.fault_from_ms = t_search - 100;
            sc.net.fault_to_ms = t_search + 600_000;
        }
        if rng.chance(1, 5) {
            sc.net.dup_ppm = 100_000;
        }
        // send failures: before / during the search, for a while or for good
        match rng.below(6) {
            0 => sc.net.outages.push(Outage { addr: node, from_ms: t_search - rng.range(0, 2_000), to_ms: t_search + rng.range(1, 10_000), mode: OutageMode::SendErr(*rng.pick(&[101, 1, 11])) }),
            1 => sc.net.outages.push(Outage { addr: node, from_ms: t_search + rng.range(1, 3_000), to_ms: t_search + rng.range(3_000, 8_000), mode: OutageMode::SendErr(101) }),
            2 => {
                sc.net.send_err_ppm = *rng.pick(&[100_000u32, 400_000]);
                if sc.net.fault_to_ms == 0 {
                    sc.net.fault_from_ms = t_search - 100;
                    sc.net.fault_to_ms = t_search + 600_000;
                }
            }
            _ => {}
        }
        // searches: 1..3, sequential or overlapping, different info-hashes
        let mut t = t_search;
        let n_s = rng.range(1, 3);
        // very late search: every contact has gone stale by then (no good node known)
        let stale = scenario_kind == 2 && n > 0;
        if stale {
            for s in sc.world.stubs.iter_mut() {
                s.answer = Answer::SilentFrom(t_search - 1_000);
            }
            t = t_search + *rng.pick(&[16 * 60_000u64, 40 * 60_000, 3 * 3_600_000]);
        }
        // a popular info-hash whose stream the application reads late (or slowly) must not hold up
        // the node's other searches: hundreds of values sit unread while a second search runs
        let unread = !stale && n >= 4 && rng.chance(1, 6);
        if unread {
            let per = if v6 { rng.range(20, 50) } else { rng.range(40, 120) } as u32;
            for (i, s) in sc.world.stubs.iter_mut().enumerate() {
                if s.get_peers_answer.is_none() && s.delay_ms == 0 {
                    s.peers.retain(|(h, _)| *h != ih);
                    s.peers.push((ih, (0..per).map(|k| addr(v6, 4, 2_000 + i as u32 * 200 + k, 9000)).collect()));
                }
            }
            sc.params.insert("unread".into(), 1);
        }
        for k in 0..n_s {
            let h = if k == 0 { ih } else { rng.id20() };
            sc.at(t, Op::Sample { node: 0, table: true });
            if unread && k == 0 {
                let mode = if rng.chance(1, 4) { Consume::DropAfterMs(*rng.pick(&[0u64, 500, 2_000])) } else { Consume::PollAfterMs(*rng.pick(&[4_000u64, 20_000, 120_000])) };
                sc.at(t, Op::SearchX { node: 0, ih: h, announce: rng.chance(1, 2), mode });
                if n_s == 1 {
                    sc.at(t + *rng.pick(&[0u64, 300, 1_000]), Op::Search { node: 0, ih: rng.id20(), announce: false });
                }
            } else {
                sc.at(t, Op::Search { node: 0, ih: h, announce: rng.chance(1, 2) });
            }
            t += *rng.pick(&[0u64, 700, 3_500, 10_000]);
        }
        // shutdown with searches in flight: every handle is dropped (the search steps keep none),
        // so the handler exits and every open stream must close at that instant
        if !stale && rng.chance(1, 8) {
            let off = *rng.pick(&[0u64, 1, 300, 700, 1_499, 1_500, 1_501, 2_000, 2_999, 3_000, 3_001, 4_600, 9_000]);
            sc.at(t_search + off, Op::Drop { node: 0, crash: rng.chance(1, 2) });
            sc.params.insert("shutdown".into(), 1);
        }
        sc.end_ms = t + 500_000;
        sc
    }

    fn sweep(&self, sc: &Scenario, base: &RunLog, tier: Tier) -> Vec<Scenario> {
        if sc.entropy_seed % 16 != 0 || sc.net.any_random_faults() {
            return vec![];
        }
        let cap = match tier {
            Tier::Quick => 15,
            Tier::Thorough => 150,
        };
        // only datagrams of the search phase
        let mut sc2 = sc.clone();
        sc2.params.insert("sweep".into(), 1);
        let all = single_fault_variants(&sc2, base, &["drop", "delay", "dup", "send_err"], 4_000, 1_600);
        let from_search: Vec<Scenario> = all
            .into_iter()
            .filter(|v| {
                v.net.explicit.as_ref().and_then(|e| e.first()).map(|f| {
                    // keep faults on links that carry get_peers traffic
                    base.log.iter().any(|ev| matches!(ev, Ev::Send { src, dst, ord, bytes, .. } if *src == f.src && *dst == f.dst && *ord == f.ord && {
                        let m = Msg::parse(bytes);
                        m.as_ref().map(|m| m.qname() == Some("get_peers") || (m.is_response() && m.resp().and_then(|r| r.get("token")).is_some())).unwrap_or(false)
                    }))
                }).unwrap_or(false)
            })
            .take(cap * 4)
            .collect();
        from_search
    }

    fn check(&self, sc: &Scenario, run: &RunLog) -> Verdict {
        let mut v = Verdict::default();
        let views = search_views(sc, run, 0);
        // table dump at call time per search step (Sample issued at the same instant)
        let mut good_at: BTreeMap<u64, usize> = BTreeMap::new();
        for e in &run.log {
            if let Ev::Api { t, ev: ApiEv::Sample { table: Some(tb), .. }, .. } = e {
                good_at.insert(*t, tb.live().filter(|(_, s)| s.status == 2).count());
            }
        }
        let mut samples = Vec::new();
        // scope (DESIGN.md, C04): searches issued after the initial bootstrap completed; earlier
        // ones are queued by contract (C16) and their end time depends on bootstrap
        // (completion is known from a resolved bootstrapped() or from get_state() reporting it)
        let boot_done: Option<u64> = run.log.iter().find_map(|e| match e {
            Ev::Api { t, ev: ApiEv::BootDone { ok: true }, .. } => Some(*t),
            Ev::Api { t, ev: ApiEv::Sample { state: Some(st), .. }, .. } if st.1 => Some(*t),
            _ => None,
        });
        let t_drop: Option<u64> = run.log.iter().find_map(|e| match e {
            Ev::Api { t, ev: ApiEv::NodeDrop { node: 0, .. }, .. } => Some(*t),
            _ => None,
        });
        for s in &views {
            // (d) node shut down: an open stream closes at once, whatever was outstanding
            if let Some(td) = t_drop {
                if s.t_call > td {
                    continue;
                }
                match s.t_end {
                    None => {
                        v.violate("C04", "open_after_shutdown", run.end_ms, format!("node shut down at {td} ms; the search issued at {} ms has not closed by {} ms", s.t_call, run.end_ms));
                        continue;
                    }
                    Some(te) if te >= td => {
                        v.hit("closed_by_shutdown");
                        if s.dropped {
                            continue;
                        }
                        if te > td.max(s.poll_from.unwrap_or(0)) + 2 {
                            v.violate("C04", "open_after_shutdown", te, format!("node shut down at {td} ms; the search issued at {} ms closed only at {te} ms", s.t_call));
                        }
                        continue;
                    }
                    _ => {}
                }
            }
            if boot_done.map(|b| s.t_call < b).unwrap_or(true) {
                v.hit("search_before_bootstrap_not_judged");
                continue;
            }
            if s.dropped {
                // the caller walked away; nothing observable about this stream's end
                v.hit("stream_dropped_by_caller");
                continue;
            }
            let on_wire: Vec<&(Vec<u8>, SocketAddr, u64, bool, bool)> = s.queries.iter().filter(|q| q.3).collect();
            let any_send_failed = s.queries.iter().any(|q| q.4);
            let te = match s.t_end {
                Some(t) => t,
                None => {
                    v.violate("C04", "search_never_ends", run.end_ms, format!("search issued at {} ms has not closed by {} ms ({} queries sent)", s.t_call, run.end_ms, s.queries.len()));
                    continue;
                }
            };
            // (d) no good node known at call time
            if let Some(g) = good_at.get(&s.t_call) {
                if *g == 0 {
                    v.hit("search_without_good_node");
                    if te != s.t_call || !s.queries.is_empty() {
                        v.violate("C04", "no_good_node_not_immediate", te, format!("node knew no good node at {} ms, yet the search closed at {te} ms after {} queries", s.t_call, s.queries.len()));
                    }
                    continue;
                }
            }
            if s.queries.is_empty() {
                continue;
            }
            let t0 = s.queries.iter().map(|q| q.2).min().unwrap();
            // (a) upper bound
            let dsts: BTreeSet<SocketAddr> = s.queries.iter().map(|q| q.1).collect();
            let k = (dsts.len() + s.told.len()) as u64;
            let mut bound = t0 + Q_MS * k + 3_000 + 2;
            if let Some(tp) = s.poll_from {
                // the application started reading at tp: the end cannot be observed before that
                v.hit("stream_read_late");
                bound = bound.max(tp + 2);
            }
            if te > bound {
                v.violate("C04", "search_too_long", te, format!("search started querying at {t0} ms and closed at {te} ms; it was told about {k} nodes, bound {bound} ms"));
            }
            // (b) nobody answers
            if s.answers.is_empty() && !on_wire.is_empty() && s.poll_from.is_none() {
                v.hit("nobody_answered");
                let first_round: Vec<u64> = s.queries.iter().filter(|q| q.2 < t0 + Q_MS).map(|q| q.2).collect();
                let t_first = *first_round.iter().min().unwrap();
                let t_last = *first_round.iter().max().unwrap();
                if te < t_first + 3_000 || te > t_last + 3_002 {
                    v.violate("C04", "silent_search_wrong_duration", te, format!("nobody answered; first round sent in [{t_first}, {t_last}] ms, search closed at {te} ms (expected about {} ms)", t_first + 3_000));
                }
            }
            if !any_send_failed {
                // (c1) an answer arriving within 1.5 s of its query is never missed
                for q in &on_wire {
                    if let Some((tr, vals, _)) = s.answers.get(&q.0) {
                        if *tr + 1 < q.2 + Q_MS && *tr < te {
                            v.hit("timely_answer");
                            for val in vals {
                                if !s.items.contains(val) {
                                    v.violate("C04", "answer_missed", *tr, format!("answer from {} arrived {} ms after its query (search closed at {te} ms) but its peer {val} was not yielded", q.1, tr - q.2));
                                    break;
                                }
                            }
                        } else if *tr >= q.2 + Q_MS {
                            v.hit("late_answer");
                        }
                    }
                }
                // (c2) never closes while a query is younger than 1.5 s and unanswered
                for q in on_wire.iter().filter(|_| s.poll_from.is_none()) {
                    let answered_before_close = s.answers.get(&q.0).map(|a| a.0 <= te).unwrap_or(false);
                    if !answered_before_close && te + 2 < q.2 + Q_MS {
                        v.violate("C04", "closed_with_young_query", te, format!("search closed at {te} ms while its query to {} sent at {} ms was unanswered and only {} ms old", q.1, q.2, te - q.2));
                        break;
                    }
                }
            } else {
                v.hit("send_failed_during_search");
            }
            if s.poll_from.is_some() && s.items.len() > 256 {
                v.hit("unread_values_over_256");
            }
            if sc.param("polling") != 0 {
                v.hit("api_polled_while_bootstrapping");
            }
            if s.told.len() > 30 {
                v.hit("told_about_30_plus_nodes");
            }
            if te - t0 > 6_000 {
                v.hit("search_longer_than_6s");
            }
            samples.push(json!({"issued_ms": s.t_call, "closed_ms": te, "queries": s.queries.len(), "answers": s.answers.len(), "told_about": k, "items": s.items.len(), "send_failed": any_send_failed}));
        }
        v.nontrivial = views.iter().any(|s| !s.queries.is_empty());
        v.sample = json!({"stubs": sc.world.stubs.len(), "searches": samples, "lat_max_ms": sc.net.lat_max_ms});
        v
    }
    fn rule(&self) -> &'static str {
        "one real node bootstrapped against 0..30 stubs whose get_peers behaviour varies per stub: silent, partial (pattern), late (RTT 1.4..3.1 s around the 1.5 s timeout), silent after bootstrap, chain-naming (<= 25 levels x 8 names), error/garbage repliers, honest with peers; optional loss/duplication during the search, send failures (outage windows or random) before/during the search; 1..3 searches, sequential or overlapping, or issued after every contact has gone stale; in 1 run of 8 an application polls get_state/load_contacts/local_addr every 1..3 ms while the node bootstraps; in 1 run of 6 (>= 4 stubs) one search is for a popular info-hash (40..120 values per answer) whose stream the caller reads only 4..120 s later or drops, while another search runs; in 1 run of 8 every handle of the node is dropped 0..9 s into the searches (shutdown: open streams must close at once); plus a single-fault sweep (drop / delay past 1.5 s / duplicate / send error on each search datagram) on a subset of fault-free base runs. non-trivial = a search sent at least one query; distinct = distinct order digests"
    }
    fn assumptions(&self) -> Vec<&'static str> {
        vec!["no socket stalls in this family (they would move the query instants the early-close clause is measured from)", "+-2 ms timer granularity", "'node has shut down' is produced by dropping every handle while search streams are open (a handler killed by a panic cannot be produced through the public API after the C15 repair)"]
    }
    fn required_reach(&self) -> Vec<&'static str> {
        vec!["nobody_answered", "timely_answer", "late_answer", "send_failed_during_search", "told_about_30_plus_nodes", "search_longer_than_6s", "search_without_good_node", "closed_by_shutdown", "stream_read_late", "unread_values_over_256", "api_polled_while_bootstrapping"]
    }
}

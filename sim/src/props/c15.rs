//! C15 — bootstrap completes when it can, tells every waiter, never kills the node.

use super::common::*;
use super::{Property, Tier, Verdict};
use crate::entropy::Rng;
use crate::exec::{Op, RunLog, Scenario};
use crate::krpc::Msg;
use crate::log::{ApiEv, EpKind, Ev};
use crate::net::{Outage, OutageMode};
use crate::stubs::{Answer, ReplyKind, StubCfg};
use serde_json::json;
use std::collections::BTreeMap;
use std::net::SocketAddr;

pub struct C15;

/// 2.5 s + 512 s back-off + 2.5 s + throttled sending to <= 30 contacts + 160 x 0.5 s, rounded up
/// ("about 11 minutes").
const BOUND_MS: u64 = 660_000;

impl Property for C15 {
    fn id(&self) -> &'static str {
        "C15"
    }
    fn level(&self) -> &'static str {
        "fault_enumeration"
    }
    fn runs(&self, tier: Tier) -> u64 {
        match tier {
            Tier::Quick => 600,
            Tier::Thorough => 30_000,
        }
    }
    fn generate(&self, seed: u64, idx: u64, tier: Tier) -> Scenario {
        let mut rng = Rng::new(seed ^ 0xC15 ^ idx.wrapping_mul(0x9E37_79B9_7F4A_7C15));
        let mut sc = Scenario::new("c15");
        sc.entropy_seed = rng.next();
        sc.tokio_seed = rng.next();
        let v6 = rng.chance(1, 3);
        sc.world.v6 = v6;
        sc.net = swarm_net(&mut rng, &[0, 5, 50, 300], false);
        let mut real = default_real(v6, 0, &mut rng);
        real.read_only = rng.chance(1, 2);

        // contacts
        let n_nodes = match rng.below(6) {
            0 => 0,
            1 => 1,
            2 => rng.range(2, 4),
            3 => rng.range(5, 9),
            4 => rng.range(10, 20),
            _ => rng.range(21, 30),
        } as usize;
        let n_routers = if rng.chance(1, 2) { 0 } else { rng.range(1, 6) as usize };
        let overlap = rng.chance(1, 2);
        let mut contact_addrs: Vec<SocketAddr> = Vec::new();
        let mut stub_i = 0usize;
        let mut mk_stub = |rng: &mut Rng, sc: &mut Scenario| -> SocketAddr {
            let a = stub_addr(v6, stub_i);
            stub_i += 1;
            let mut s = StubCfg::honest(a, rng.id20());
            match rng.below(10) {
                0 | 1 => s.answer = Answer::Never,
                2 => s.reply = ReplyKind::Error(201 + rng.below(4) as i64),
                3 => s.reply = ReplyKind::Garbage,
                4 => s.answer = Answer::SilentUntil(rng.range(1_000, 600_000)),
                5 => s.answer = Answer::SilentFrom(rng.range(1_000, 600_000)),
                6 => {
                    // nothing at this address at all
                    return a;
                }
                _ => {}
            }
            sc.world.stubs.push(s);
            a
        };
        for _ in 0..n_nodes {
            let a = mk_stub(&mut rng, &mut sc);
            real.nodes.push(a);
            contact_addrs.push(a);
        }
        for k in 0..n_routers {
            let a = if overlap && !real.nodes.is_empty() && rng.chance(1, 2) {
                real.nodes[rng.below(real.nodes.len() as u64) as usize]
            } else {
                mk_stub(&mut rng, &mut sc)
            };
            contact_addrs.push(a);
            let mut s = a.to_string();
            if v6 && rng.chance(1, 2) {
                // alternative spelling of the same IPv6 literal
                if let std::net::IpAddr::V6(ip) = a.ip() {
                    let seg: Vec<String> = ip.segments().iter().map(|x| format!("{x:x}")).collect();
                    s = format!("[{}]:{}", seg.join(":"), a.port());
                }
            }
            real.routers.push(s);
            // the same router twice in different spellings / the same string twice
            if k == 0 && rng.chance(1, 4) {
                real.routers.push(a.to_string());
            }
        }
        // outage plan
        let mut outage_end = 0u64;
        match rng.below(6) {
            0 | 1 => {}
            2 => {
                // unreachable from the start for 1 s .. 2 h
                let to = *rng.pick(&[1_000u64, 10_000, 70_000, 600_000, 1_800_000, 7_200_000]);
                let to = match tier {
                    Tier::Quick => to.min(1_800_000),
                    Tier::Thorough => to,
                };
                sc.net.outages.push(Outage { addr: real.addr, from_ms: 0, to_ms: to, mode: if rng.chance(1, 2) { OutageMode::BlackHole } else { OutageMode::SendErr(*rng.pick(&[101, 1, 11])) } });
                outage_end = to;
            }
            3 => {
                // flapping
                let mut t = rng.range(0, 5_000);
                for _ in 0..rng.range(2, 12) {
                    let on = rng.range(500, 120_000);
                    sc.net.outages.push(Outage { addr: real.addr, from_ms: t, to_ms: t + on, mode: if rng.chance(1, 2) { OutageMode::BlackHole } else { OutageMode::SendErr(101) } });
                    t += on + rng.range(200, 60_000);
                    outage_end = t;
                }
            }
            4 => {
                // partition between the node and all contacts
                let to = rng.range(1_000, 900_000);
                sc.net.partitions.push(crate::net::Partition { side: vec![real.addr], from_ms: rng.range(0, 3_000), to_ms: to });
                outage_end = to;
            }
            _ => {
                // outage that starts after the node came up
                let from = rng.range(1_000, 60_000);
                let to = from + rng.range(1_000, 600_000);
                sc.net.outages.push(Outage { addr: real.addr, from_ms: from, to_ms: to, mode: OutageMode::BlackHole });
                outage_end = to;
            }
        }
        // contacts (or the path to them) that deliver every answer twice, back to back
        if rng.chance(1, 4) {
            sc.net.dup_ppm = *rng.pick(&[200_000u32, 1_000_000]);
        }
        sc.reals.push(real);
        sc.at(0, Op::Start { node: 0 });
        // waiters
        let horizon = outage_end + BOUND_MS + 700_000;
        let n_wait = rng.range(0, 5);
        for _ in 0..n_wait {
            let t = match rng.below(4) {
                0 => 0,
                1 => rng.range(0, 5_000),
                2 => rng.range(0, outage_end.max(1)),
                _ => rng.range(0, outage_end + 120_000),
            };
            if rng.chance(1, 5) {
                // a caller that gives up: the dropped waiter must not disturb the others
                sc.at(t, Op::BootstrappedX { node: 0, cancel_after_ms: *rng.pick(&[0u64, 1, 1_000, 2_500, 30_000]) });
            } else {
                sc.at(t, Op::Bootstrapped { node: 0 });
            }
        }
        let period = 20_000;
        sc.at(0, Op::SampleEvery { node: 0, period_ms: period, count: (horizon / period) as u32, table: false });
        sc.end_ms = horizon + 10_000;
        sc.params.insert("routers".into(), n_routers as i64);
        sc.params.insert("nodes".into(), n_nodes as i64);
        sc.params.insert("outage_end".into(), outage_end as i64);
        sc
    }

    fn sweep(&self, sc: &Scenario, base: &RunLog, tier: Tier) -> Vec<Scenario> {
        // single-fault layer on every 8th base run: each of the first datagrams of the bootstrap
        // dropped / delayed past the 2.5 s initial timeout / failing to send
        if sc.entropy_seed % 8 != 0 {
            return vec![];
        }
        let cap = match tier {
            Tier::Quick => 12,
            Tier::Thorough => 120,
        };
        // a lost datagram voids the "responsive from T" premise only if it is the answer of the
        // single responsive contact; the oracle handles that through params
        let mut vars = single_fault_variants(sc, base, &["drop", "delay", "send_err"], cap, 2_600);
        for v in vars.iter_mut() {
            v.params.insert("single_fault".into(), 1);
        }
        vars
    }

    fn check(&self, sc: &Scenario, run: &RunLog) -> Verdict {
        let mut v = Verdict::default();
        let real = &sc.reals[0];
        let me = real.addr;
        for p in &run.panics {
            v.violate("C15", "panic", 0, format!("a task of the node panicked: {p}"));
        }
        // contact set (router strings are IP literals)
        let mut contacts: Vec<SocketAddr> = real.nodes.clone();
        for r in &real.routers {
            if let Ok(a) = r.parse::<SocketAddr>() {
                contacts.push(a);
            }
        }
        let no_contacts = contacts.is_empty();
        // first response from a configured contact delivered to the node
        let mut first_resp: Option<u64> = None;
        let mut sent_any = false;
        let mut spoken_to = false;
        for e in &run.log {
            match e {
                Ev::Deliver { t, src, dst, bytes, dst_kind, .. } if *dst == me && *dst_kind == EpKind::Real => {
                    spoken_to = true;
                    if first_resp.is_none() && contacts.contains(src) && Msg::parse(bytes).map(|m| m.is_response()).unwrap_or(false) {
                        first_resp = Some(*t);
                    }
                }
                Ev::Send { src, .. } if *src == me => {
                    if !spoken_to {
                        sent_any = true;
                    }
                }
                _ => {}
            }
        }
        if no_contacts && sent_any {
            v.violate("C15", "traffic_without_contacts", 0, "node without contacts emitted a datagram without being spoken to".into());
        }
        // (a) API liveness at every sample
        let mut samples = 0;
        for e in &run.log {
            if let Ev::Api { t, ev: ApiEv::Sample { state, local_addr_ok, .. }, .. } = e {
                samples += 1;
                if state.is_none() || !*local_addr_ok {
                    v.violate("C15", "api_dead", *t, format!("get_state() is {} and local_addr() is {} at {t} ms", if state.is_some() { "Some" } else { "None" }, if *local_addr_ok { "Ok" } else { "Err" }));
                    break;
                }
            }
        }
        // responsive-from instant: some node contact answers every query normally from T on, and
        // the node is reachable from T on
        let outage_end = sc.param("outage_end") as u64;
        let mut t_resp: Option<u64> = None;
        for s in &sc.world.stubs {
            if !real.nodes.contains(&s.addr) || s.reply != ReplyKind::Normal {
                continue;
            }
            let from = match &s.answer {
                Answer::Always => Some(0),
                Answer::SilentUntil(t) => Some(*t),
                _ => None,
            };
            if let Some(f) = from {
                let f = f.max(outage_end);
                t_resp = Some(t_resp.map(|x: u64| x.min(f)).unwrap_or(f));
            }
        }
        // waiters
        let mut calls: BTreeMap<usize, u64> = BTreeMap::new();
        let mut resolved = 0;
        for e in &run.log {
            if let Ev::Api { t, step, ev } = e {
                match ev {
                    ApiEv::BootCall { .. } => {
                        calls.insert(*step, *t);
                    }
                    ApiEv::Note(n) if n == "boot_cancelled" => {
                        calls.remove(step);
                        v.hit("waiter_cancelled");
                    }
                    ApiEv::BootDone { ok } => {
                        let called = calls.remove(step).unwrap_or(0);
                        resolved += 1;
                        if no_contacts {
                            if *t != called || !*ok {
                                v.violate("C15", "no_contacts_not_immediate", *t, format!("no contacts: bootstrapped() called at {called} resolved {ok} at {t}"));
                            }
                            continue;
                        }
                        if *ok && first_resp.map(|f| *t < f).unwrap_or(true) {
                            v.violate("C15", "resolved_before_any_answer", *t, format!("bootstrapped() resolved true at {t} ms before any configured contact had answered (first answer: {first_resp:?})"));
                        }
                        if real.routers.is_empty() {
                            if !*ok {
                                v.violate("C15", "waiter_false", *t, format!("bootstrapped() called at {called} ms resolved false at {t} ms"));
                            } else if let Some(tr) = t_resp {
                                let deadline = called.max(tr) + BOUND_MS + 4 * sc.net.lat_max_ms + sc.param("single_fault") as u64 * BOUND_MS;
                                if *t > deadline {
                                    v.violate("C15", "waiter_late", *t, format!("bootstrapped() called at {called} ms resolved at {t} ms; a contact is responsive from {tr} ms, bound {deadline} ms"));
                                }
                            }
                        }
                    }
                    _ => {}
                }
            }
        }
        // waiters that never resolved
        if real.routers.is_empty() && !no_contacts {
            if let Some(tr) = t_resp {
                for (step, called) in &calls {
                    let deadline = (*called).max(tr) + BOUND_MS + 4 * sc.net.lat_max_ms + sc.param("single_fault") as u64 * BOUND_MS;
                    if run.end_ms > deadline {
                        v.violate("C15", "waiter_never", run.end_ms, format!("bootstrapped() (step {step}) called at {called} ms still unresolved at {} ms; a contact is responsive from {tr} ms", run.end_ms));
                    }
                }
            }
        }
        if no_contacts {
            for (step, called) in &calls {
                v.violate("C15", "no_contacts_not_immediate", *called, format!("no contacts: bootstrapped() (step {step}) called at {called} never resolved"));
            }
        }
        v.nontrivial = samples > 3 && (resolved > 0 || !calls.is_empty() || !contacts.is_empty());
        if real.routers.iter().any(|r| r.parse::<SocketAddr>().map(|a| real.nodes.contains(&a)).unwrap_or(false)) {
            v.hit("router_equals_node");
        }
        if run.stats.get("fault_outage_send_err").is_some() || run.stats.get("fault_outage_blackhole").is_some() {
            v.hit("outage_hit");
        }
        if resolved > 0 {
            v.hit_n("waiters_resolved", resolved);
        }
        if t_resp.map(|t| t > 120_000).unwrap_or(false) && resolved > 0 {
            v.hit("resolved_after_long_outage");
        }
        v.sample = json!({"nodes": real.nodes.len(), "routers": real.routers, "stubs": sc.world.stubs.len(), "outage_end_ms": outage_end, "waiters": resolved + calls.len() as u64, "resolved": resolved, "first_answer_ms": first_resp, "responsive_from_ms": t_resp, "samples": samples});
        v
    }
    fn rule(&self) -> &'static str {
        "one real node per run; 0..30 node contacts and 0..6 IP-literal routers (overlapping, duplicated spellings), each backed by an answering / silent / erroring / garbage / late-starting / going-silent stub or by nothing; read-only on/off; outage plan (none, from start up to 2 h, flapping, partition, mid-run) via send errors or black-holing; in 1 run of 4 datagrams are duplicated (20 % or all of them); 0..5 bootstrapped() callers at drawn times (1 in 5 gives up after 0 ms..30 s and drops its future); API sampled every 20 s. non-trivial = node had contacts or waiters and was sampled; distinct = distinct order digests"
    }
    fn assumptions(&self) -> Vec<&'static str> {
        vec!["routers are IP literals (DNS is not simulated)", "the 11-minute bound is applied only when a plain-node contact answers every query from some instant on and the node is reachable from then on; no message loss in this family"]
    }
    fn required_reach(&self) -> Vec<&'static str> {
        vec!["router_equals_node", "outage_hit", "waiters_resolved", "resolved_after_long_outage"]
    }
}

//! C09 — find_node/get_peers list up to 8 distinct live table nodes, nearest bucket first.

use super::common::*;
use super::{Property, Tier, Verdict};
use crate::entropy::Rng;
use crate::exec::{Op, ProbeMsg, RunLog, Scenario, When};
use crate::krpc::{self, hex, id20, lcp, parse_compact_nodes, Msg};
use crate::log::{ApiEv, Ev, TableDump};
use crate::stubs::{Answer, StubCfg};
use serde_json::json;
use std::collections::{BTreeMap, BTreeSet};
use std::net::SocketAddr;

pub struct C09;

type Handle = ([u8; 20], SocketAddr);

fn live_set(d: &TableDump) -> BTreeMap<Handle, u8> {
    d.live().map(|(_, s)| ((s.id, s.addr), s.status)).collect()
}

impl Property for C09 {
    fn id(&self) -> &'static str {
        "C09"
    }
    fn runs(&self, tier: Tier) -> u64 {
        match tier {
            Tier::Quick => 800,
            Tier::Thorough => 30_000,
        }
    }
    fn generate(&self, seed: u64, idx: u64, _tier: Tier) -> Scenario {
        let mut rng = Rng::new(seed ^ 0xC09 ^ idx.wrapping_mul(0x9E37_79B9_7F4A_7C15));
        let mut sc = Scenario::new("c09");
        sc.entropy_seed = rng.next();
        sc.tokio_seed = rng.next();
        let v6 = rng.chance(1, 3);
        sc.world.v6 = v6;
        sc.net = swarm_net(&mut rng, &[0, 0, 5, 50], false);
        sc.net.check_table_shape = true;
        let mut real = default_real(v6, 0, &mut rng);
        real.read_only = false;
        let own = real.id.unwrap();
        let node = real.addr;
        let n = *rng.pick(&[3usize, 10, 20, 40, 80, 150, 300]);
        // depth profile: forces 1..160 buckets
        let max_depth = *rng.pick(&[1usize, 3, 6, 12, 30, 80, 158]);
        let deep_cluster = rng.chance(1, 3);
        let horizon = *rng.pick(&[60_000u64, 10 * 60_000, 25 * 60_000, 45 * 60_000]);
        // id squatters: 9..12 parties at different addresses all claiming the one id that differs from
        // the local id in its last bit; they drive the table to its full 160 buckets
        let squat = if rng.chance(1, 8) { rng.range(9, 12) as usize } else { 0 };
        if squat > 0 {
            sc.params.insert("squatters".into(), squat as i64);
        }
        for i in 0..n.max(squat) {
            let depth = if deep_cluster && i < 12 { max_depth.saturating_sub(rng.below(2) as usize) } else { rng.below(max_depth as u64 + 1) as usize };
            let id = if i < squat { krpc::flip_bit(&own, 159) } else { id_with_lcp(&own, depth, &mut rng) };
            let mut s = StubCfg::honest(stub_addr(v6, i), id);
            if i < squat {
                sc.world.stubs.push(s);
                continue;
            }
            match rng.below(8) {
                0 => s.answer = Answer::Never,
                1 | 2 => s.answer = Answer::SilentFrom(rng.range(5_000, horizon)),
                _ => {}
            }
            sc.world.stubs.push(s);
        }
        let n = n.max(squat);
        let k = rng.range(1, 8.min(n as u64)) as usize;
        for i in 0..k {
            real.nodes.push(sc.world.stubs[(i * 7) % n].addr);
        }
        sc.reals.push(real);
        sc.at(0, Op::Start { node: 0 });
        let mut tids = Tids(0);
        let pid = rng.id20();
        // probe instants
        let n_inst = rng.range(2, 8);
        let probe4 = addr(false, 2, 1, 20_000);
        let probe6 = addr(true, 2, 1, 20_000);
        for _ in 0..n_inst {
            let t = rng.range(3_000, horizon);
            let n_targets = rng.range(3, 14);
            for j in 0..n_targets {
                let target = match rng.below(5) {
                    0 => own,
                    1 | 2 => krpc::flip_bit(&own, rng.below(160) as usize),
                    3 => rng.id20(),
                    _ => sc.world.stubs[rng.below(n as u64) as usize].id,
                };
                let want: Option<&[&str]> = match rng.below(6) {
                    0 => Some(&["n4"]),
                    1 => Some(&["n6"]),
                    2 => Some(&["n4", "n6"]),
                    _ => None,
                };
                let from = if rng.chance(1, 4) { if v6 { probe4 } else { probe6 } } else if v6 { probe6 } else { probe4 };
                let bytes = if rng.chance(1, 2) { find_node(&tids.next(), &pid, &target, want) } else { get_peers(&tids.next(), &pid, &target, want) };
                let tt = t + j * 3;
                // enumeration + dump, probe, enumeration + dump again
                let a = step(&mut sc, When::At(tt), Op::Closest { node: 0, target });
                let b = step(&mut sc, When::After { step: a, delay: 0 }, Op::Probe { from, to: node, msg: ProbeMsg::Bytes(bytes), timeout_ms: 2_000 });
                step(&mut sc, When::After { step: b, delay: 0 }, Op::Closest { node: 0, target });
            }
        }
        // hook-free cross-check of the dumps: 161 find_node probes (local id and every single-bit
        // flip) at one instant must together name exactly the live nodes of the dump
        if rng.chance(1, 3) {
            let t = rng.range(3_000, horizon);
            let from = if v6 { probe6 } else { probe4 };
            let a = step(&mut sc, When::At(t), Op::Closest { node: 0, target: own });
            let first = sc.steps.len();
            let mut last = a;
            for bit in 0..161usize {
                let target = if bit == 160 { own } else { krpc::flip_bit(&own, bit) };
                last = step(&mut sc, When::After { step: a, delay: 0 }, Op::Probe { from, to: node, msg: ProbeMsg::Bytes(find_node(&tids.next(), &pid, &target, None)), timeout_ms: 2_000 });
            }
            // wait for all of them: the last step was issued last, but completion order may differ
            let end = step(&mut sc, When::After { step: last, delay: 2_100 }, Op::Closest { node: 0, target: own });
            sc.params.insert("x_first".into(), first as i64);
            sc.params.insert("x_dump_a".into(), a as i64);
            sc.params.insert("x_dump_b".into(), end as i64);
        }
        sc.end_ms = horizon + 30_000;
        sc
    }

    fn check(&self, sc: &Scenario, run: &RunLog) -> Verdict {
        let mut v = Verdict::default();
        let own = sc.reals[0].id.unwrap();
        let v6 = sc.reals[0].addr.is_ipv6();
        // index events by step
        let mut closest: BTreeMap<usize, (&Vec<Handle>, &TableDump, u64)> = BTreeMap::new();
        let mut sent: BTreeMap<usize, Vec<u8>> = BTreeMap::new();
        let mut reply: BTreeMap<usize, (Vec<u8>, u64)> = BTreeMap::new();
        for e in &run.log {
            match e {
                Ev::Api { t, step, ev: ApiEv::Closest { ids, table, .. } } => {
                    closest.insert(*step, (ids, table, *t));
                }
                Ev::Api { step, ev: ApiEv::ProbeSent { bytes, .. }, .. } => {
                    sent.insert(*step, bytes.clone());
                }
                Ev::Api { t, step, ev: ApiEv::ProbeReply { bytes, .. } } => {
                    reply.insert(*step, (bytes.clone(), *t));
                }
                Ev::Invariant { t, clause, detail, .. } => {
                    // C08 (ii): shape invariant on the live node — reported by C08's family only
                    let _ = (t, clause, detail);
                }
                _ => {}
            }
        }
        let mut judged = 0u64;
        let mut skipped = 0u64;
        let mut max_buckets = 0usize;
        let mut saw_bad = false;
        let mut saw_questionable = false;
        // enumeration clause on every Closest event
        for (step, (ids, table, t)) in &closest {
            let live = live_set(table);
            max_buckets = max_buckets.max(table.buckets.len());
            saw_bad |= table.buckets.iter().flatten().any(|s| s.status == 0 && s.id != [0u8; 20]);
            saw_questionable |= live.values().any(|s| *s == 1);
            let mut seen: BTreeSet<Handle> = BTreeSet::new();
            for h in ids.iter() {
                if !seen.insert(*h) {
                    v.violate("C09", "enumeration_repeats", *t, format!("enumeration (step {step}) visits {} twice", hex(&h.0)));
                    break;
                }
                if !live.contains_key(h) {
                    v.violate("C09", "enumeration_not_live", *t, format!("enumeration (step {step}) visits {} which is not a live table node", hex(&h.0)));
                    break;
                }
            }
            if seen.len() != live.len() && seen.iter().all(|h| live.contains_key(h)) {
                let missing = live.keys().find(|h| !seen.contains(*h)).unwrap();
                v.violate("C09", "enumeration_misses", *t, format!("enumeration (step {step}) visits {} of {} live nodes; e.g. {} (shares {} bits with the local id, {} buckets) is never visited", seen.len(), live.len(), hex(&missing.0), lcp(&own, &missing.0), table.buckets.len()));
            }
        }
        // a comparison with a table dump is meaningful only if nothing that can change the live set
        // happened between the dumps that bracket it: the node neither processed a response nor sent
        // a query of its own (equal dumps are not enough: a contact re-admitted by hearsay and
        // pinged to death again inside the window leaves both dumps equal)
        let node_addr = sc.reals[0].addr;
        let mut change_times: Vec<u64> = run
            .log
            .iter()
            .filter_map(|e| match e {
                Ev::Recv { t, dst, bytes, .. } if *dst == node_addr => Msg::parse(bytes).filter(|m| !m.is_query()).map(|_| *t),
                Ev::Send { t, src, bytes, .. } if *src == node_addr => Msg::parse(bytes).filter(|m| m.is_query()).map(|_| *t),
                _ => None,
            })
            .collect();
        change_times.sort();
        let quiet_between = |ta: u64, tb: u64| -> bool {
            let i = change_times.partition_point(|t| *t < ta);
            !(i < change_times.len() && change_times[i] <= tb)
        };
        // reply clauses
        for (pstep, (rbytes, t)) in &reply {
            let (before, after) = match (closest.get(&(pstep - 1)), closest.get(&(pstep + 1))) {
                (Some(b), Some(a)) => (b, a),
                _ => continue,
            };
            if live_set(before.1) != live_set(after.1) || !quiet_between(before.2, after.2) {
                skipped += 1;
                continue;
            }
            let live = live_set(before.1);
            let q = match sent.get(pstep).and_then(|b| Msg::parse(b)) {
                Some(q) => q,
                None => continue,
            };
            let r = match Msg::parse(rbytes) {
                Some(r) => r,
                None => continue,
            };
            let rv = match r.resp() {
                Some(x) => x,
                None => continue,
            };
            let a = q.args().unwrap();
            let target = match a.get("target").or_else(|| a.get("info_hash")).and_then(id20) {
                Some(x) => x,
                None => continue,
            };
            let want: Option<Vec<String>> = a.get("want").and_then(|w| w.as_list()).map(|l| l.iter().filter_map(|x| x.as_bytes()).map(|b| String::from_utf8_lossy(b).to_string()).collect());
            let own_key = if v6 { "nodes6" } else { "nodes" };
            let own_wanted = match &want {
                Some(w) => w.iter().any(|x| x == if v6 { "n6" } else { "n4" }),
                None => true,
            };
            judged += 1;
            let listed: Vec<Handle> = match rv.get(own_key).and_then(|x| x.as_bytes()) {
                Some(b) => match parse_compact_nodes(b, v6) {
                    Some(l) => l,
                    None => {
                        v.violate("C09", "bad_nodes_encoding", *t, format!("`{own_key}` has {} bytes", b.len()));
                        continue;
                    }
                },
                None => vec![],
            };
            if !own_wanted {
                if !listed.is_empty() {
                    v.violate("C09", "unwanted_family_listed", *t, format!("want={want:?} but `{own_key}` lists {} nodes", listed.len()));
                }
                v.hit("other_family_wanted_only");
                continue;
            }
            let uniq: BTreeSet<Handle> = listed.iter().copied().collect();
            if uniq.len() != listed.len() {
                v.violate("C09", "reply_repeats_node", *t, format!("reply lists {} nodes, {} distinct", listed.len(), uniq.len()));
            }
            if let Some(h) = listed.iter().find(|h| !live.contains_key(*h)) {
                v.violate("C09", "reply_lists_non_live", *t, format!("reply lists {} at {}, which is not a good or questionable table node", hex(&h.0), h.1));
            }
            let expect = live.len().min(8);
            if listed.len() != expect {
                v.violate("C09", "reply_count", *t, format!("reply lists {} nodes; the table has {} live nodes, so {} were expected (target shares {} bits with the local id, {} buckets)", listed.len(), live.len(), expect, lcp(&own, &target), before.1.buckets.len()));
            }
            let base = lcp(&own, &target);
            for h in live.keys() {
                if lcp(&h.0, &target) > base && !uniq.contains(h) {
                    v.violate("C09", "closer_node_omitted", *t, format!("live node {} shares {} bits with the target (the local id shares {base}) but is not in the reply", hex(&h.0), lcp(&h.0, &target)));
                    break;
                }
            }
            if live.len() > 8 {
                v.hit("more_than_8_live_nodes");
            }
            if target == own {
                v.hit("target_is_local_id");
            }
        }
        // hook-free cross-check
        if sc.params.contains_key("x_first") {
            let first = sc.param("x_first") as usize;
            if let (Some(a), Some(b)) = (closest.get(&(sc.param("x_dump_a") as usize)), closest.get(&(sc.param("x_dump_b") as usize))) {
                // the 161 probes are answered over a stretch of time: the comparison is meaningful only
                // if nothing that can change the live set happened in between. Equal dumps before and
                // after are not enough (a contact re-admitted by hearsay and pinged to death again
                // inside the window leaves both dumps equal): the node must neither have processed a
                // response nor sent a query of its own between the two dumps.
                let quiet = quiet_between(a.2, b.2);
                if !quiet {
                    v.hit("cross_check_skipped_table_in_flux");
                }
                if quiet && live_set(a.1) == live_set(b.1) {
                    let live: BTreeSet<Handle> = live_set(a.1).keys().copied().collect();
                    let mut union: BTreeSet<Handle> = BTreeSet::new();
                    let mut got = 0;
                    for st in first..first + 161 {
                        if let Some((rb, _)) = reply.get(&st) {
                            got += 1;
                            if let Some(l) = Msg::parse(rb).and_then(|m| m.resp().and_then(|r| r.get(if v6 { "nodes6" } else { "nodes" }).and_then(|x| x.as_bytes()).and_then(|x| parse_compact_nodes(x, v6)))) {
                                union.extend(l);
                            }
                        }
                    }
                    if got == 161 {
                        v.hit("dump_cross_checked_by_161_probes");
                        if union != live {
                            let miss: Vec<String> = live.difference(&union).take(3).map(|h| hex(&h.0)).collect();
                            let extra: Vec<String> = union.difference(&live).take(3).map(|h| hex(&h.0)).collect();
                            v.violate("C09", "probe_dump_disagrees_with_table", a.2, format!("161 find_node probes name {} nodes, the table dump has {} live nodes; only in table: {miss:?}, only in replies: {extra:?}", union.len(), live.len()));
                        }
                    }
                }
            }
        }
        if max_buckets >= 20 {
            v.hit("twenty_or_more_buckets");
        }
        if max_buckets >= 100 {
            v.hit("hundred_or_more_buckets");
        }
        if max_buckets >= 160 {
            v.hit("fully_split_table_160_buckets");
        }
        if saw_bad {
            v.hit("table_with_bad_entries");
        }
        if saw_questionable {
            v.hit("table_with_questionable_entries");
        }
        v.nontrivial = judged > 0;
        v.sample = json!({"stubs": sc.world.stubs.len(), "max_buckets": max_buckets, "replies_judged": judged, "skipped_table_changed": skipped, "enumerations": closest.len()});
        v
    }
    fn rule(&self) -> &'static str {
        "one real serving node whose table is grown by traffic and time: bootstrap against 3..300 stubs placed by shared-prefix depth (up to 158 bits, forcing 1..159 buckets; in 1 run of 8 also 9..12 squatters on the id that differs from the local id in its last bit, forcing all 160), some silent from the start or from a drawn time (entries turn questionable and bad), up to 45 virtual minutes; in one run of three additionally 161 find_node probes (local id and every single-bit flip) at one instant whose union must equal the dump's live set (hook-free cross-check); at 2..8 instants, 3..14 targets each (local id, local id with one bit flipped, random, ids of members): full enumeration through closest_nodes (hook H2) with a table dump, then a find_node/get_peers probe with a drawn want list, then enumeration + dump again; a reply is judged when the two dumps agree. non-trivial = at least one reply judged; distinct = distinct order digests"
    }
    fn assumptions(&self) -> Vec<&'static str> {
        vec!["table dumps come from hook H2/H3 at the same virtual instant as the probe (replies whose surrounding dumps differ are skipped and counted)"]
    }
    fn required_reach(&self) -> Vec<&'static str> {
        vec!["more_than_8_live_nodes", "target_is_local_id", "twenty_or_more_buckets", "hundred_or_more_buckets", "fully_split_table_160_buckets", "table_with_bad_entries", "table_with_questionable_entries", "other_family_wanted_only", "dump_cross_checked_by_161_probes"]
    }
}

//! Determinism self-test family: a small cluster of real nodes that bootstrap, announce and
//! search, with latency and (optionally) message faults. No oracle — only digests are compared.

use super::common::*;
use super::{Property, Tier, Verdict};
use crate::entropy::Rng;
use crate::exec::{Op, RunLog, Scenario};

pub struct SelfCheck;

impl Property for SelfCheck {
    fn id(&self) -> &'static str {
        "SELF"
    }
    fn runs(&self, tier: Tier) -> u64 {
        match tier {
            Tier::Quick => 48,
            Tier::Thorough => 1000,
        }
    }
    fn generate(&self, seed: u64, idx: u64, _tier: Tier) -> Scenario {
        let mut rng = Rng::new(seed ^ idx.wrapping_mul(0x9E37_79B9));
        let mut sc = Scenario::new("self");
        sc.entropy_seed = rng.next();
        sc.tokio_seed = rng.next();
        let v6 = rng.chance(1, 3);
        let n = rng.range(2, 9) as usize;
        let faults = rng.chance(1, 2);
        sc.net = swarm_net(&mut rng, &[0, 5, 50, 300], faults);
        for i in 0..n {
            let mut r = default_real(v6, i, &mut rng);
            if rng.chance(1, 4) {
                r.id = None; // node id drawn from the (seeded) entropy stream
            }
            sc.reals.push(r);
        }
        full_mesh(&mut sc);
        start_all(&mut sc, 0);
        let ih = rng.id20();
        let b = sc.at(0, Op::Bootstrapped { node: 0 });
        let s = sc.after(b, 1000, Op::Search { node: 0, ih, announce: true });
        let s2 = sc.after(s, 1500, Op::Search { node: n - 1, ih, announce: false });
        sc.after(s2, 0, Op::Sample { node: 0, table: true });
        sc.end_ms = 120_000;
        sc
    }
    fn check(&self, _sc: &Scenario, run: &RunLog) -> Verdict {
        let mut v = Verdict::default();
        v.nontrivial = run.log.len() > 10;
        v
    }
    fn rule(&self) -> &'static str {
        "determinism self-test"
    }
}

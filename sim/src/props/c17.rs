//! C17 — every datagram the node emits fits its peers' 1500-byte receive buffer.

use super::common::*;
use super::{Property, Tier, Verdict};
use crate::entropy::Rng;
use crate::exec::{Op, ProbeMsg, RunLog, Scenario, TokenSpec, When};
use crate::krpc::{self, Val};
use crate::log::{EpKind, Ev};
use crate::stubs::StubCfg;
use serde_json::json;

pub struct C17;

pub const MAX_DATAGRAM: usize = 1500;

/// Size monitor over one run: (t, len, clause, detail) for every oversize datagram a real node sent.
pub fn oversize(sc: &Scenario, run: &RunLog) -> Vec<(u64, usize, &'static str, String)> {
    let mut out = Vec::new();
    for r in &sc.reals {
        let (pairs, _, _) = pair_replies(&run.log, r.addr);
        // store model (as in C07): (info-hash, contact) -> time of the last acknowledged announce
        let mut stored: std::collections::BTreeMap<([u8; 20], std::net::SocketAddr), u64> = Default::default();
        let mut acks: Vec<(u64, [u8; 20], std::net::SocketAddr)> = Vec::new();
        for (q, rep) in &pairs {
            if let (Some(qm), Some(rm)) = (&q.msg, &rep.msg) {
                if qm.qname() == Some("announce_peer") && rm.is_response() {
                    if let Some(a) = qm.args() {
                        if let Some(ih) = a.get("info_hash").and_then(krpc::id20) {
                            let implied = a.get("implied_port").and_then(|x| x.as_int()).unwrap_or(0) != 0;
                            let port = a.get("port").and_then(|x| x.as_int()).unwrap_or(0) as u16;
                            let contact = if implied { q.src } else { std::net::SocketAddr::new(q.src.ip(), port) };
                            acks.push((rep.t, ih, contact));
                        }
                    }
                }
            }
        }
        acks.sort();
        let mut ack_i = 0usize;
        for e in &run.log {
            if let Ev::Send { t, src, dst, bytes, src_kind: EpKind::Real, seq, .. } = e {
                if *src != r.addr || bytes.len() <= MAX_DATAGRAM {
                    continue;
                }
                while ack_i < acks.len() && acks[ack_i].0 <= *t {
                    stored.insert((acks[ack_i].1, acks[ack_i].2), acks[ack_i].0);
                    ack_i += 1;
                }
                // is it a get_peers reply whose excess is its values list?
                let paired = pairs.iter().find(|(_, rep)| rep.seq == *seq);
                let mut clause = "oversize_other";
                let mut what = format!("{} datagram", krpc::Msg::parse(bytes).map(|m| m.tag()).unwrap_or_else(|| "undecodable".into()));
                if let Some((q, rep)) = paired {
                    if q.msg.as_ref().and_then(|m| m.qname()) == Some("get_peers") {
                        if let Some(m) = &rep.msg {
                            if let Some(rv) = m.resp() {
                                let n_values = rv.get("values").and_then(|v| v.as_list()).map(|l| l.len()).unwrap_or(0);
                                let mut stripped = rv.clone();
                                if let Val::Dict(d) = &mut stripped {
                                    d.remove(&b"values"[..]);
                                }
                                let without = krpc::response(&m.t, stripped).encode().len();
                                what = format!("get_peers reply with {n_values} values ({} bytes without them)", without);
                                if without <= MAX_DATAGRAM && n_values > 0 {
                                    clause = "oversize_get_peers_values";
                                    // the open finding is about replies that are RIGHT (exactly the live peers, C07)
                                    // and merely too long; values that should not be there are something else
                                    let ih = q.msg.as_ref().and_then(|m| m.args()).and_then(|a| a.get("info_hash")).and_then(krpc::id20);
                                    let vals = rv.get("values").and_then(krpc::parse_values).unwrap_or_default();
                                    let mut seen = std::collections::BTreeSet::new();
                                    let stale = vals.iter().filter(|c| {
                                        let live = ih.and_then(|h| stored.get(&(h, **c))).map(|ts| *t < *ts + 86_400_000 + 10_000).unwrap_or(false);
                                        !live || !seen.insert(**c) || c.is_ipv6() != dst.is_ipv6()
                                    }).count();
                                    if stale > 0 {
                                        clause = "oversize_values_not_live";
                                        what = format!("get_peers reply with {n_values} values of which {stale} are expired, repeated, never announced or of the wrong family ({} bytes without values)", without);
                                    }
                                }
                            }
                        }
                    }
                }
                out.push((*t, bytes.len(), clause, format!("{} bytes to {dst}: {what}", bytes.len())));
            }
        }
    }
    out
}

impl Property for C17 {
    fn id(&self) -> &'static str {
        "C17"
    }
    fn runs(&self, tier: Tier) -> u64 {
        match tier {
            Tier::Quick => 600,
            Tier::Thorough => 30_000,
        }
    }
    fn generate(&self, seed: u64, idx: u64, tier: Tier) -> Scenario {
        // the size monitor also runs over the scenario families of other properties (searches on
        // large stub networks, hostile traffic, probe mixes, deep tables)
        if idx % 4 == 3 {
            let sub = idx / 4;
            return match sub % 4 {
                0 => super::c02::C02.generate(seed, sub, tier),
                1 => super::c03::C03.generate(seed, sub, tier),
                2 => super::c05::C05.generate(seed, sub, tier),
                _ => super::c09::C09.generate(seed, sub, tier),
            };
        }
        let _ = tier;
        let mut rng = Rng::new(seed ^ 0xC17 ^ idx.wrapping_mul(0x9E37_79B9_7F4A_7C15));
        let mut sc = Scenario::new("c17");
        sc.entropy_seed = rng.next();
        sc.tokio_seed = rng.next();
        let v6 = rng.chance(1, 2);
        sc.world.v6 = v6;
        sc.net = swarm_net(&mut rng, &[0, 5, 50], false);
        // in one run of three a good share of the node's sends fail (ENETUNREACH, EPERM, EAGAIN): what
        // it emits afterwards must still be well-formed, single messages of legal size
        if rng.chance(1, 3) {
            sc.net.send_err_ppm = *rng.pick(&[100_000u32, 300_000, 600_000]);
            sc.params.insert("send_errors".into(), 1);
        }
        let mut real = default_real(v6, 0, &mut rng);
        real.read_only = false;
        let own = real.id.unwrap();
        let node = real.addr;
        // routing table of various shapes: contacts at chosen prefix depths
        let churn = rng.chance(1, 6);
        // (a day-long run is affordable only on a node that does not re-bootstrap every 5 s)
        let n_stubs = if churn { *rng.pick(&[0usize, 0, 20]) } else { *rng.pick(&[0usize, 1, 8, 20, 40, 80, 160]) };
        for i in 0..n_stubs {
            let depth = rng.below(12) as usize;
            let s = StubCfg::honest(stub_addr(v6, i), id_with_lcp(&own, depth, &mut rng));
            if i < 8 || rng.chance(1, 2) {
                real.nodes.push(s.addr);
            }
            sc.world.stubs.push(s);
        }
        sc.reals.push(real);
        sc.at(0, Op::Start { node: 0 });
        let mut tids = Tids(0);
        let pid = rng.id20();
        let ih = rng.id20();
        let n_peers = if churn { 0 } else { *rng.pick(&[0usize, 1, 20, 60, 150, 180, 186, 190, 250, 400, 500, 520]) };
        let mixed = rng.chance(1, 4) && !churn;
        let mut t = 5_000u64;
        if churn {
            // a day of honest churn on one info-hash: a long-lived seeder that keeps re-announcing and
            // two generations of one-shot peers; live peers stay below the size at which the open
            // finding starts, so every reply must fit
            let cap = if v6 { 50 } else { 140 };
            let n1 = rng.range(cap / 2, cap) as usize;
            let n2 = rng.range(cap / 2, cap) as usize;
            let seeder = addr(v6, 2, 50_000, 20_000);
            announce_chain(&mut sc, &mut tids, When::At(t), seeder, node, &pid, &ih, Some(6881));
            t += 50;
            for k in 0..n1 {
                announce_chain(&mut sc, &mut tids, When::At(t), addr(v6, 2, k as u32 + 1, 20_000), node, &pid, &ih, None);
                t += 20;
            }
            let renew_at = *rng.pick(&[3_600_000u64, 12 * 3_600_000, 23 * 3_600_000]);
            announce_chain(&mut sc, &mut tids, When::At(renew_at), seeder, node, &pid, &ih, Some(6881));
            if renew_at < 20 * 3_600_000 {
                announce_chain(&mut sc, &mut tids, When::At(renew_at + 12 * 3_600_000), seeder, node, &pid, &ih, Some(6881));
            }
            t = 86_400_000 + t + 60_000;
            for k in 0..n2 {
                announce_chain(&mut sc, &mut tids, When::At(t), addr(v6, 2, 10_000 + k as u32, 20_000), node, &pid, &ih, None);
                t += 20;
            }
            sc.params.insert("churn".into(), (n1 + n2 + 1) as i64);
        }
        for k in 0..n_peers {
            let fam6 = if mixed { k % 2 == 0 } else { v6 };
            let src = addr(fam6, 2, k as u32 + 1, 20_000);
            let port = if rng.chance(1, 2) { Some(rng.range(1, 65535) as u16) } else { None };
            announce_chain(&mut sc, &mut tids, When::At(t), src, node, &pid, &ih, port);
            t += 20;
        }
        t += 2_000;
        // queries with every want combination and transaction ids of 0..32 bytes
        let wants: [Option<&[&str]>; 4] = [None, Some(&["n4"]), Some(&["n6"]), Some(&["n4", "n6"])];
        for (k, w) in wants.iter().enumerate() {
            for fam6 in [false, true] {
                if fam6 != v6 && !mixed && k > 0 {
                    continue;
                }
                let from = addr(fam6, 2, 60_000 + k as u32, 30_000);
                let tid = rng.bytes_in(0, 32);
                // (two outstanding queries from one address must not share a transaction id, or the
                // monitor cannot tell whose reply an oversize datagram is)
                let mut tid2 = rng.bytes_in(0, 32);
                if tid2 == tid {
                    tid2.push(b'f');
                }
                let target = if rng.chance(1, 2) { ih } else { own };
                step(&mut sc, When::At(t), Op::Probe { from, to: node, msg: ProbeMsg::Bytes(get_peers(&tid, &pid, &ih, *w)), timeout_ms: 3_000 });
                step(&mut sc, When::At(t + 5), Op::Probe { from, to: node, msg: ProbeMsg::Bytes(find_node(&tid2, &pid, &target, *w)), timeout_ms: 3_000 });
                t += 10;
            }
        }
        // queries that will be refused, with unusually long fields (the reply must still fit)
        for k in 0..rng.range(0, 6) {
            let from = addr(v6, 2, 61_000 + k as u32, 30_000);
            let token = TokenSpec::Bytes(rng.bytes_in(0, 1300));
            step(&mut sc, When::At(t + 20 + k), Op::Probe { from, to: node, msg: ProbeMsg::Announce { tid: rng.bytes_in(0, 32), id: pid, ih, port: Some(1), token }, timeout_ms: 3_000 });
        }
        // the node's own traffic: a search with announce
        step(&mut sc, When::At(t + 100), Op::Search { node: 0, ih, announce: true });
        sc.params.insert("peers".into(), n_peers as i64);
        sc.end_ms = t + 60_000;
        sc
    }
    fn check(&self, sc: &Scenario, run: &RunLog) -> Verdict {
        let mut v = Verdict::default();
        let over = oversize(sc, run);
        let mut seen = std::collections::BTreeSet::new();
        for (t, _len, clause, detail) in &over {
            if seen.insert(*clause) {
                v.violate("C17", clause, *t, detail.clone());
            }
        }
        let mut max_len = 0usize;
        let mut n_sent = 0u64;
        for e in &run.log {
            if let Ev::Send { bytes, src_kind: EpKind::Real, .. } = e {
                max_len = max_len.max(bytes.len());
                n_sent += 1;
            }
        }
        v.nontrivial = n_sent > 2;
        if max_len > 1000 {
            v.hit("datagram_over_1000_bytes");
        }
        if run.stats.get("fault_send_err").copied().unwrap_or(0) > 10 {
            v.hit("sends_failing");
        }
        if sc.param("churn") > 0 {
            v.hit("day_of_churn_below_known_threshold");
        }
        if sc.param("peers") >= 500 {
            v.hit("store_full");
        }
        if sc.family != "c17" {
            v.hit("monitor_over_other_families");
        }
        v.sample = json!({"peers_announced": sc.param("peers"), "stubs": sc.world.stubs.len(), "datagrams_sent_by_node": n_sent, "largest_datagram": max_len, "oversize": over.len()});
        v
    }
    fn rule(&self) -> &'static str {
        "3 of 4 cases: one real serving node with 0..160 stub contacts at chosen prefix depths; 0..520 valid announces for one info-hash (IPv4, IPv6 or mixed); get_peers and find_node probes with every want combination, both requester families, transaction ids of 0..32 bytes; announces with never-issued tokens of 0..1300 bytes; plus the node's own bootstrap, refresh and announcing-search traffic; 1 of 6 of these: 25 virtual hours of churn on one info-hash (a seeder re-announcing, two generations of 25..140 one-shot peers) with live peers below the known-finding threshold; in 1 run of 3 10..60 % of the sends of the node fail; the length of every buffer passed to the socket is checked; 1 of 4 cases: the same monitor over scenarios of the C02, C03, C05 and C09 families. non-trivial = the node sent more than two datagrams; distinct = distinct order digests"
    }
    fn assumptions(&self) -> Vec<&'static str> {
        vec!["known finding (open): a get_peers reply whose excess over 1500 bytes is accounted for by its values list AND whose values are exactly live, distinct, same-family announced contacts (store model as in C07) is reported as KNOWN-FINDING, every other oversize datagram as VIOLATION"]
    }
    fn required_reach(&self) -> Vec<&'static str> {
        vec!["datagram_over_1000_bytes", "store_full", "monitor_over_other_families", "day_of_churn_below_known_threshold", "sends_failing"]
    }
}

//! Helpers shared by generators and oracles.

use crate::entropy::Rng;
use crate::exec::{Op, RealCfg, Scenario};
use crate::krpc::{self, Val};
use crate::net::NetCfg;
use std::net::{IpAddr, Ipv4Addr, Ipv6Addr, SocketAddr};

pub fn real_addr(v6: bool, i: usize) -> SocketAddr {
    addr(v6, 0, i as u32 + 1, 6881)
}

pub fn stub_addr(v6: bool, i: usize) -> SocketAddr {
    addr(v6, 1, i as u32 + 1, 6881)
}

pub fn probe_addr(v6: bool, i: usize, port: u16) -> SocketAddr {
    addr(v6, 2, i as u32 + 1, port)
}

/// Address in one of the simulator's ranges: class 0 = real nodes, 1 = stubs, 2 = probes,
/// 3 = adversary / fake peers, 4 = announced peers.
pub fn addr(v6: bool, class: u8, n: u32, port: u16) -> SocketAddr {
    if v6 {
        SocketAddr::new(
            IpAddr::V6(Ipv6Addr::new(
                0xfd00,
                class as u16,
                0,
                0,
                0,
                0,
                (n >> 16) as u16,
                (n & 0xffff) as u16,
            )),
            port,
        )
    } else {
        SocketAddr::new(
            IpAddr::V4(Ipv4Addr::new(10, class, ((n >> 8) & 0xff) as u8, (n & 0xff) as u8)),
            port,
        )
    }
}

/// An id sharing exactly `lcp` leading bits with `base` (lcp < 160), other bits random.
pub fn id_with_lcp(base: &[u8; 20], lcp: usize, rng: &mut Rng) -> [u8; 20] {
    let lcp = lcp.min(159);
    let r = rng.id20();
    let mut id = *base;
    for bit in lcp..160 {
        let byte = bit / 8;
        let mask = 1u8 << (7 - (bit % 8));
        if bit == lcp {
            id[byte] ^= mask;
        } else {
            id[byte] = (id[byte] & !mask) | (r[byte] & mask);
        }
    }
    id
}

pub fn default_real(v6: bool, i: usize, rng: &mut Rng) -> RealCfg {
    RealCfg {
        addr: real_addr(v6, i),
        id: Some(rng.id20()),
        read_only: false,
        announce_port: None,
        nodes: vec![],
        routers: vec![],
    }
}

pub fn ping(tid: &[u8], id: &[u8; 20]) -> Vec<u8> {
    krpc::query(tid, "ping", Val::dict().with("id", Val::bytes(id))).encode()
}

pub fn find_node(tid: &[u8], id: &[u8; 20], target: &[u8; 20], want: Option<&[&str]>) -> Vec<u8> {
    let mut a = Val::dict().with("id", Val::bytes(id)).with("target", Val::bytes(target));
    if let Some(w) = want {
        a.set("want", Val::List(w.iter().map(|s| Val::str(s)).collect()));
    }
    krpc::query(tid, "find_node", a).encode()
}

pub fn get_peers(tid: &[u8], id: &[u8; 20], ih: &[u8; 20], want: Option<&[&str]>) -> Vec<u8> {
    let mut a = Val::dict().with("id", Val::bytes(id)).with("info_hash", Val::bytes(ih));
    if let Some(w) = want {
        a.set("want", Val::List(w.iter().map(|s| Val::str(s)).collect()));
    }
    krpc::query(tid, "get_peers", a).encode()
}

/// Swarm-style network configuration: latency ceiling and enabled fault kinds drawn per run.
pub fn swarm_net(rng: &mut Rng, lat_choices: &[u64], faults: bool) -> NetCfg {
    let mut n = NetCfg {
        seed: rng.next(),
        lat_min_ms: 0,
        lat_max_ms: *rng.pick(lat_choices),
        ..Default::default()
    };
    // scheduling jitter (no virtual time passes, so it is on in every family): derived from the
    // net seed rather than drawn, so that adding it did not reshuffle the generators' other draws
    n.yield_ppm = match n.seed % 4 {
        1 => 30_000,
        2 => 200_000,
        _ => 0,
    };
    // spurious receive errors (ECONNRESET and friends): nothing is lost, so on in every family too
    n.recv_err_ppm = match (n.seed / 4) % 4 {
        1 => 2_000,
        2 => 30_000,
        _ => 0,
    };
    if faults {
        // a slow bootstrap worker (families whose oracles do not time the worker's effects)
        if (n.seed / 16) % 4 == 1 {
            n.worker_stall_ppm = 200_000;
            n.worker_stall_max_ms = if (n.seed / 64) % 2 == 0 { 700 } else { 3_000 };
        }
        let rates = [0u32, 0, 5_000, 20_000, 80_000, 200_000];
        if rng.chance(1, 2) {
            n.drop_ppm = *rng.pick(&rates);
        }
        if rng.chance(1, 2) {
            n.dup_ppm = *rng.pick(&rates);
        }
        if rng.chance(1, 3) {
            n.corrupt_ppm = *rng.pick(&rates) / 2;
        }
        if rng.chance(1, 2) {
            n.late_ppm = *rng.pick(&rates);
            n.late_ms = *rng.pick(&[200, 1000, 1600, 3000, 5000]);
        }
        if rng.chance(1, 4) {
            n.send_err_ppm = *rng.pick(&rates) / 2;
        }
        if rng.chance(1, 4) {
            n.stall_ppm = *rng.pick(&rates);
            n.stall_max_ms = *rng.pick(&[1, 20, 300, 2000]);
        }
    }
    n
}

/// Full-mesh helper: every real node lists every other real node as a bootstrap contact.
pub fn full_mesh(sc: &mut Scenario) {
    let addrs: Vec<SocketAddr> = sc.reals.iter().map(|r| r.addr).collect();
    for (i, r) in sc.reals.iter_mut().enumerate() {
        r.nodes = addrs.iter().enumerate().filter(|(j, _)| *j != i).map(|(_, a)| *a).collect();
    }
}

pub fn start_all(sc: &mut Scenario, at: u64) {
    for i in 0..sc.reals.len() {
        sc.at(at, Op::Start { node: i });
    }
}

/// Single-fault sweep: one variant per (datagram index k < cap, fault kind) of a fault-free base
/// run, with exactly that datagram dropped / duplicated / delayed by `delay_ms` / corrupted.
/// Only datagrams sent or received by a real node are considered.
pub fn single_fault_variants(
    sc: &Scenario,
    base: &crate::exec::RunLog,
    kinds: &[&str],
    cap: usize,
    delay_ms: u64,
) -> Vec<Scenario> {
    use crate::log::{EpKind, Ev, SendOutcome};
    use crate::net::{ExplicitFault, FaultKind};
    let reals: Vec<std::net::SocketAddr> = sc.reals.iter().map(|r| r.addr).collect();
    let mut out = Vec::new();
    let mut k = 0usize;
    for e in &base.log {
        if let Ev::Send { src, dst, ord, outcome: SendOutcome::Queued { .. }, src_kind, seq, .. } = e {
            if !(reals.contains(src) || reals.contains(dst)) {
                continue;
            }
            if k >= cap {
                break;
            }
            k += 1;
            for kind in kinds {
                let fk = match *kind {
                    "drop" => FaultKind::Drop,
                    "dup" => FaultKind::Dup { lat: (seq % 7) * 5 },
                    "delay" => FaultKind::Delay { ms: delay_ms },
                    "corrupt" => FaultKind::Corrupt { mode: (seq % 7) as u8, a: (*seq as u32).wrapping_mul(2654435761), b: (*seq as u32) ^ 0x5bd1 },
                    "send_err" => {
                        if *src_kind != EpKind::Real {
                            continue;
                        }
                        FaultKind::SendErr { code: 101 }
                    }
                    "stall" => {
                        if *src_kind != EpKind::Real {
                            continue;
                        }
                        FaultKind::Stall { ms: delay_ms }
                    }
                    _ => continue,
                };
                let mut v = sc.clone();
                v.net.clear_random_faults();
                v.net.explicit = Some(vec![ExplicitFault { src: *src, dst: *dst, ord: *ord, kind: fk }]);
                out.push(v);
            }
        }
    }
    out
}

// ---------------------------------------------------------------------------------------------
// probe workload helpers (server-side properties)

use crate::exec::{ProbeMsg, TokenSpec, When};

pub struct Tids(pub u32);

impl Tids {
    pub fn next(&mut self) -> Vec<u8> {
        self.0 += 1;
        let mut t = vec![b'P'];
        t.extend_from_slice(&self.0.to_be_bytes()[1..]);
        t
    }
}

pub fn step(sc: &mut Scenario, when: When, op: Op) -> usize {
    sc.steps.push(crate::exec::Step { when, op });
    sc.steps.len() - 1
}

/// get_peers from `from` followed (1 ms after its reply) by announce_peer with the token just
/// received. Returns (get step, announce step).
pub fn announce_chain(
    sc: &mut Scenario,
    tids: &mut Tids,
    when: When,
    from: SocketAddr,
    to: SocketAddr,
    id: &[u8; 20],
    ih: &[u8; 20],
    port: Option<u16>,
) -> (usize, usize) {
    let g = step(
        sc,
        when,
        Op::Probe { from, to, msg: ProbeMsg::Bytes(get_peers(&tids.next(), id, ih, None)), timeout_ms: 5_000 },
    );
    let a = step(
        sc,
        When::After { step: g, delay: 1 },
        Op::Probe {
            from,
            to,
            msg: ProbeMsg::Announce { tid: tids.next(), id: *id, ih: *ih, port, token: TokenSpec::FromStep(g) },
            timeout_ms: 5_000,
        },
    );
    (g, a)
}

/// The contact address an announce from `from` with `port` stands for.
pub fn contact_of(from: SocketAddr, port: Option<u16>) -> SocketAddr {
    match port {
        Some(p) => SocketAddr::new(from.ip(), p),
        None => from,
    }
}

/// Pairs every response/error a real node sent with the query it answers: (query wire, reply wire).
/// A reply answers the most recent not-yet-answered delivered query with the same transaction id
/// from the address the reply goes to.
pub fn pair_replies<'a>(
    log: &'a [crate::log::Ev],
    node: SocketAddr,
) -> (Vec<(crate::exec::Wire<'a>, crate::exec::Wire<'a>)>, Vec<crate::exec::Wire<'a>>, Vec<crate::exec::Wire<'a>>) {
    use crate::log::Ev;
    let mut open: Vec<crate::exec::Wire<'a>> = Vec::new(); // delivered queries not yet answered
    let mut pairs = Vec::new();
    let mut orphans = Vec::new(); // replies without a query
    for (idx, e) in log.iter().enumerate() {
        match e {
            Ev::Deliver { t, seq, src, dst, bytes, dst_kind, .. } if *dst == node && *dst_kind == crate::log::EpKind::Real => {
                // the node reads at most 1500 bytes of a datagram
                let cut = &bytes[..bytes.len().min(1500)];
                let msg = crate::krpc::Msg::parse(cut);
                if msg.as_ref().map(|m| m.is_query()).unwrap_or(false) {
                    open.push(crate::exec::Wire { idx, t: *t, seq: *seq, src: *src, dst: *dst, bytes: cut, msg, queued: true });
                }
            }
            Ev::Send { t, seq, src, dst, bytes, .. } if *src == node => {
                let msg = crate::krpc::Msg::parse(bytes);
                let is_reply = msg.as_ref().map(|m| !m.is_query()).unwrap_or(false);
                if !is_reply {
                    continue;
                }
                let w = crate::exec::Wire { idx, t: *t, seq: *seq, src: *src, dst: *dst, bytes, msg, queued: true };
                let tid = w.msg.as_ref().map(|m| m.t.clone()).unwrap_or_default();
                // candidates: unanswered delivered queries from that address with that id; prefer
                // well-formed ones (malformed ones are never answered), then the most recent
                let cands: Vec<usize> = open
                    .iter()
                    .enumerate()
                    .filter(|(_, q)| q.src == *dst && q.msg.as_ref().map(|m| m.t == tid).unwrap_or(false))
                    .map(|(i, _)| i)
                    .collect();
                let best = cands
                    .iter()
                    .rev()
                    .find(|i| open[**i].msg.as_ref().map(crate::krpc::well_formed_query).unwrap_or(false))
                    .or(cands.last())
                    .copied();
                if let Some(pos) = best {
                    let q = open.remove(pos);
                    pairs.push((q, w));
                } else {
                    orphans.push(w);
                }
            }
            _ => {}
        }
    }
    (pairs, orphans, open)
}

/// Inverse of `addr`: the class octet / segment.
pub fn addr_class(a: &SocketAddr) -> u8 {
    match a.ip() {
        IpAddr::V4(ip) => {
            let o = ip.octets();
            if o[0] == 10 {
                o[1]
            } else {
                255
            }
        }
        IpAddr::V6(ip) => {
            let s = ip.segments();
            if s[0] == 0xfd00 {
                s[1] as u8
            } else {
                255
            }
        }
    }
}

/// Inverse of `addr`: the host number.
pub fn addr_n(a: &SocketAddr) -> u32 {
    match a.ip() {
        IpAddr::V4(ip) => {
            let o = ip.octets();
            ((o[2] as u32) << 8) | o[3] as u32
        }
        IpAddr::V6(ip) => {
            let s = ip.segments();
            ((s[6] as u32) << 16) | s[7] as u32
        }
    }
}

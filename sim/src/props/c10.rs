//! C10 — contacts are classified good / questionable / bad exactly per BEP5 timing.
//!
//! Reference model of the statement, fed by the wire tap, compared with load_contacts samples and
//! find_node replies. Also hosts the model used by C11.

use super::common::*;
use super::{Property, Tier, Verdict};
use crate::entropy::Rng;
use crate::exec::{Op, ProbeMsg, RunLog, Scenario};
use crate::krpc::{id20, parse_compact_nodes, Msg};
use crate::log::{ApiEv, EpKind, Ev};
use crate::stubs::{Answer, NodeRef, NodesMode, StubCfg};
use serde_json::json;
use std::collections::{BTreeMap, BTreeSet};
use std::net::SocketAddr;

pub struct C10;

pub const MIN15: u64 = 15 * 60_000;

#[derive(Clone, Debug, Default)]
pub struct Contact {
    pub known: bool,
    pub last_answer: Option<u64>,
    pub last_query: Option<u64>,
    pub unanswered: u32,
    /// time of the last event touching this contact (for same-instant ambiguity)
    pub touched: u64,
    pub last_named: Option<u64>,
    pub ever_seen: Option<u64>,
}

impl Contact {
    pub fn good(&self, t: u64, read_only: bool) -> bool {
        if let Some(a) = self.last_answer {
            if t >= a && t - a < MIN15 {
                return true;
            }
        }
        if !self.known || self.unanswered >= 2 || read_only {
            return false;
        }
        match self.last_query {
            Some(q) => t >= q && t - q < MIN15,
            None => false,
        }
    }
    pub fn live(&self, t: u64, read_only: bool) -> bool {
        self.known && (self.good(t, read_only) || self.unanswered < 2)
    }
}

pub struct ModelSample {
    pub t: u64,
    pub good: BTreeSet<SocketAddr>,
    pub questionable: BTreeSet<SocketAddr>,
    /// model state of every stub contact at this instant
    pub state: BTreeMap<SocketAddr, Contact>,
}

/// Runs the contact model over the log of node 0; calls `on_sample` at every Sample event and
/// `on_reply` for every find_node reply the node sent to a probe (with the named addresses).
pub fn run_model(
    sc: &Scenario,
    run: &RunLog,
    mut on_sample: impl FnMut(&ModelSample),
    mut on_reply: impl FnMut(u64, &[SocketAddr], &BTreeMap<SocketAddr, Contact>),
) {
    let real = &sc.reals[0];
    let node = real.addr;
    let own = real.id.unwrap();
    let v6 = node.is_ipv6();
    let ro = real.read_only;
    let ids: BTreeMap<SocketAddr, [u8; 20]> = sc.world.stubs.iter().map(|s| (s.addr, s.id)).collect();
    let mut st: BTreeMap<SocketAddr, Contact> = sc.world.stubs.iter().map(|s| (s.addr, Contact::default())).collect();
    // outstanding queries: (dst, tid) -> send time
    let mut outstanding: BTreeMap<(SocketAddr, Vec<u8>), u64> = BTreeMap::new();
    // slow bootstrap worker (NetCfg.worker_stall_*): for a stalled send the node marks the contact and
    // takes the answer only when the worker gets the CPU back. (dst, tid) -> instant of resumption
    let mut resume: BTreeMap<(SocketAddr, Vec<u8>), u64> = BTreeMap::new();
    for e in &run.log {
        if let Ev::Fault { t, what } = e {
            let w: Vec<&str> = what.split(' ').collect();
            if w.len() == 4 && w[0] == "worker_stall" {
                if let (Ok(a), Ok(ms)) = (w[1].parse::<SocketAddr>(), w[3].parse::<u64>()) {
                    resume.insert((a, crate::krpc::unhex(w[2])), *t + ms);
                }
            }
        }
    }
    // timeline: log events in order, plus the deferred effects of stalled sends at their instants
    #[derive(Clone, Copy)]
    enum Item {
        Log(usize),
        /// the worker marks the contact it has just (finally) finished sending to
        Mark(usize),
        /// the worker takes the answer that has been waiting
        Resp(usize),
    }
    let mut items: Vec<(u64, u8, usize, Item)> = Vec::with_capacity(run.log.len());
    for (i, e) in run.log.iter().enumerate() {
        items.push((e.t(), 0, i, Item::Log(i)));
        if resume.is_empty() {
            continue;
        }
        match e {
            Ev::Send { src, dst, bytes, src_kind: EpKind::Real, .. } if *src == node => {
                if let Some(m) = Msg::parse(bytes) {
                    if let Some(r) = resume.get(&(*dst, m.t.clone())) {
                        if m.is_query() {
                            items.push((*r, 1, i, Item::Mark(i)));
                        }
                    }
                }
            }
            Ev::Recv { t, src, dst, bytes, .. } if *dst == node => {
                if let Some(m) = Msg::parse(bytes) {
                    if let Some(r) = resume.get(&(*src, m.t.clone())) {
                        if m.is_response() && *t < *r {
                            items.push((*r, 2, i, Item::Resp(i)));
                        }
                    }
                }
            }
            _ => {}
        }
    }
    if !resume.is_empty() {
        items.sort_by_key(|x| (x.0, x.1, x.2));
    }
    for (now, _, _, item) in items {
        let (e, deferred) = match item {
            Item::Log(i) => (&run.log[i], false),
            Item::Mark(i) | Item::Resp(i) => (&run.log[i], true),
        };
        match e {
            Ev::Send { t, src, dst, bytes, src_kind: EpKind::Real, outcome, .. } if *src == node => {
                let m = match Msg::parse(bytes) {
                    Some(m) => m,
                    None => continue,
                };
                if m.is_query() {
                    if let Some(c) = st.get_mut(dst) {
                        let _ = outcome;
                        let stalled = resume.contains_key(&(*dst, m.t.clone()));
                        if !deferred {
                            // answers to announce_peer are never accepted: the search that sent it is
                            // gone by the time they arrive
                            if m.qname() != Some("announce_peer") {
                                outstanding.insert((*dst, m.t.clone()), *t);
                            }
                        }
                        if deferred || !stalled {
                            // the first bootstrap round (find_node for the own id) is not recorded on the node
                            let initial_round = m.qname() == Some("find_node") && m.args().and_then(|a| a.get("target")).and_then(id20) == Some(own);
                            if !initial_round && c.live(now, ro) && !c.good(now, ro) {
                                c.unanswered += 1;
                            }
                        }
                        c.touched = now.max(1);
                    }
                } else if m.is_response() && !deferred {
                    // find_node / get_peers reply to a probe
                    if !st.contains_key(dst) {
                        if let Some(r) = m.resp() {
                            let named: Vec<SocketAddr> = r
                                .get(if v6 { "nodes6" } else { "nodes" })
                                .and_then(|x| x.as_bytes())
                                .and_then(|b| parse_compact_nodes(b, v6))
                                .unwrap_or_default()
                                .into_iter()
                                .map(|(_, a)| a)
                                .collect();
                            on_reply(*t, &named, &st);
                        }
                    }
                }
            }
            // processing order: the instant the node's recv_from returned the datagram (a datagram
            // delivered while the handler is busy is processed after the sends the handler makes first)
            Ev::Recv { t, src, dst, bytes, .. } if *dst == node => {
                let m = match Msg::parse(bytes) {
                    Some(m) => m,
                    None => continue,
                };
                if !st.contains_key(src) {
                    continue;
                }
                if m.is_query() {
                    let c = st.get_mut(src).unwrap();
                    // a query counts only if the sender is already known under the id it gives
                    let same_id = m.args().and_then(|a| a.get("id")).and_then(id20) == ids.get(src).copied();
                    if same_id && c.live(*t, ro) && !ro {
                        c.last_query = Some(*t);
                    }
                    c.touched = (*t).max(1);
                } else if let Some(r) = m.resp() {
                    // the answer to a stalled send waits for the worker
                    if !deferred && resume.get(&(*src, m.t.clone())).map(|x| *t < *x).unwrap_or(false) {
                        if let Some(c) = st.get_mut(src) {
                            c.touched = (*t).max(1);
                        }
                        continue;
                    }
                    if outstanding.remove(&(*src, m.t.clone())).is_some() {
                        let same_id = r.get("id").and_then(id20) == ids.get(src).copied();
                        if same_id {
                            let c = st.get_mut(src).unwrap();
                            c.known = true;
                            c.last_answer = Some(now);
                            c.unanswered = 0;
                            c.touched = now.max(1);
                            c.ever_seen.get_or_insert(now);
                        }
                        let named = r
                            .get(if v6 { "nodes6" } else { "nodes" })
                            .and_then(|x| x.as_bytes())
                            .and_then(|b| parse_compact_nodes(b, v6))
                            .unwrap_or_default();
                        for (nid, na) in named {
                            if ids.get(&na).copied() != Some(nid) || na == *src {
                                continue;
                            }
                            let d = st.get_mut(&na).unwrap();
                            d.last_named = Some(now);
                            d.touched = now.max(1);
                            if !d.live(now, ro) {
                                // (re-)admitted exactly like a node heard of for the first time
                                d.known = true;
                                d.last_answer = None;
                                d.last_query = None;
                                d.unanswered = 0;
                                d.ever_seen.get_or_insert(now);
                            }
                        }
                    }
                }
            }
            Ev::Api { t, ev: ApiEv::Sample { contacts: Some((g, q)), .. }, .. } if !deferred => {
                on_sample(&ModelSample { t: *t, good: g.iter().copied().collect(), questionable: q.iter().copied().collect(), state: st.clone() });
            }
            _ => {}
        }
    }
}

impl Property for C10 {
    fn id(&self) -> &'static str {
        "C10"
    }
    fn runs(&self, tier: Tier) -> u64 {
        match tier {
            Tier::Quick => 400,
            Tier::Thorough => 15_000,
        }
    }
    fn generate(&self, seed: u64, idx: u64, tier: Tier) -> Scenario {
        let mut rng = Rng::new(seed ^ 0xC10 ^ idx.wrapping_mul(0x9E37_79B9_7F4A_7C15));
        let mut sc = Scenario::new("c10");
        sc.entropy_seed = rng.next();
        sc.tokio_seed = rng.next();
        let v6 = rng.chance(1, 4);
        sc.world.v6 = v6;
        // answers always arrive well inside every query lifetime (0.5 s): one-way latency <= 200 ms
        sc.net = swarm_net(&mut rng, &[0, 5, 50, 200], false);
        // in one run of three some of the node's REPLIES fail to send (its own queries never do): a
        // query from a known contact counts whether or not the answer could be sent
        if rng.chance(1, 3) {
            sc.net.reply_send_err_ppm = *rng.pick(&[100_000u32, 500_000, 1_000_000]);
        }
        sc.net.check_table_shape = true;
        let mut real = default_real(v6, 0, &mut rng);
        real.read_only = rng.chance(1, 3);
        let node = real.addr;
        let n = rng.range(1, 8) as usize;
        let minutes = match tier {
            Tier::Quick => *rng.pick(&[20u64, 35, 50, 90]),
            Tier::Thorough => *rng.pick(&[20u64, 50, 90, 180]),
        };
        let end = minutes * 60_000;
        let addrs: Vec<SocketAddr> = (0..n).map(|i| stub_addr(v6, i)).collect();
        let ids: Vec<[u8; 20]> = (0..n).map(|_| rng.id20()).collect();
        for i in 0..n {
            let mut s = StubCfg::honest(addrs[i], ids[i]);
            // answering script
            match rng.below(6) {
                0 => s.answer = Answer::Always,
                1 => s.answer = Answer::SilentFrom(rng.range(5_000, end)),
                2 | 3 => {
                    let mut w = Vec::new();
                    let mut t = 0;
                    while t < end {
                        let on = *rng.pick(&[30_000u64, 120_000, MIN15 - 1_000, MIN15 + 1_000, 20 * 60_000]);
                        let off = *rng.pick(&[20_000u64, 60_000, MIN15 - 1, MIN15, MIN15 + 1, MIN15 + 60_000, 25 * 60_000]);
                        w.push((t, t + on));
                        t += on + off;
                    }
                    s.answer = Answer::Windows(w);
                }
                4 => s.answer = Answer::SilentUntil(rng.range(1_000, end / 2)),
                _ => s.answer = Answer::Never,
            }
            // whom it names: a drawn subset (so that silent contacts are not re-named all the time)
            let mut named = Vec::new();
            for j in 0..n {
                if j != i && rng.chance(1, 3) {
                    named.push(NodeRef { id: ids[j], addr: addrs[j] });
                }
            }
            s.nodes = if named.is_empty() { NodesMode::Empty } else { NodesMode::Fixed(named) };
            sc.world.stubs.push(s);
        }
        // bootstrap contacts: at least one that answers at the start if possible
        let k = rng.range(1, n as u64) as usize;
        for i in 0..k {
            real.nodes.push(addrs[i]);
        }
        let own = real.id.unwrap();
        sc.reals.push(real);
        sc.at(0, Op::Start { node: 0 });
        // contacts that query the node
        let mut tid_no = 0u32;
        for i in 0..n {
            if rng.chance(1, 2) {
                let mut t = rng.range(1_000, end);
                for _ in 0..rng.range(1, 6) {
                    tid_no += 1;
                    let tid = [b'S', (tid_no >> 8) as u8, tid_no as u8];
                    let b = if rng.chance(1, 2) { ping(&tid, &ids[i]) } else { find_node(&tid, &ids[i], &own, None) };
                    sc.at(t, Op::Raw { from: addrs[i], to: node, bytes: b });
                    t += *rng.pick(&[10_000u64, 300_000, MIN15 - 1, MIN15 + 1, 20 * 60_000]);
                    if t >= end {
                        break;
                    }
                }
            }
        }
        // impostors: queries carrying a contact's id from an address that is not the contact's
        for _ in 0..rng.range(0, 4) {
            let i = rng.below(n as u64) as usize;
            tid_no += 1;
            let tid = [b'I', (tid_no >> 8) as u8, tid_no as u8];
            let from = addr(v6, 3, rng.range(1, 4) as u32, 6000);
            sc.at(rng.range(1_000, end), Op::Raw { from, to: node, bytes: ping(&tid, &ids[i]) });
        }
        // searches started by the script (more queries towards contacts)
        for _ in 0..rng.range(0, 3) {
            sc.at(rng.range(5_000, end), Op::Search { node: 0, ih: rng.id20(), announce: rng.chance(1, 2) });
        }
        // sampling: contacts every few seconds (period co-prime with 6 s and 5 s), find_node probe every minute
        let period = *rng.pick(&[3_700u64, 7_300, 11_900]);
        sc.at(500, Op::SampleEvery { node: 0, period_ms: period, count: (end / period) as u32, table: false });
        let probe = probe_addr(v6, 0, 20_000);
        let pid = rng.id20();
        let mut t = 30_000;
        let mut k = 0u32;
        while t < end {
            k += 1;
            let tid = [b'F', (k >> 8) as u8, k as u8];
            let target = if rng.chance(1, 2) { own } else { rng.id20() };
            sc.at(t, Op::Probe { from: probe, to: node, msg: ProbeMsg::Bytes(find_node(&tid, &pid, &target, None)), timeout_ms: 0 });
            t += 61_000;
        }
        sc.end_ms = end + 5_000;
        sc.params.insert("minutes".into(), minutes as i64);
        sc
    }

    fn check(&self, sc: &Scenario, run: &RunLog) -> Verdict {
        let ro = sc.reals[0].read_only;
        let grace = sc.param("grace_ms") as u64;
        let mut findings: Vec<(&'static str, u64, String)> = Vec::new();
        let mut reach: BTreeMap<&'static str, u64> = BTreeMap::new();
        let mut samples = 0u64;
        {
            let findings = std::cell::RefCell::new(&mut findings);
            let reach = std::cell::RefCell::new(&mut reach);
            run_model(
                sc,
                run,
                |ms| {
                    samples += 1;
                    let t = ms.t;
                    for (a, c) in &ms.state {
                        // events at (almost) the same instant as the sample make the order ambiguous
                        // (with a slow worker task the node acts on its own sends and on answers up to
                        // grace ms after the log shows them)
                        if c.touched + 2 + grace > t && c.touched <= t + 2 && c.touched != 0 {
                            continue;
                        }
                        let g3 = [t.saturating_sub(1), t, t + 1].iter().map(|x| c.good(*x, ro)).collect::<Vec<_>>();
                        let l3 = [t.saturating_sub(1), t, t + 1].iter().map(|x| c.live(*x, ro)).collect::<Vec<_>>();
                        let def_good = g3.iter().all(|x| *x);
                        // (a slow worker stamps an answer up to grace ms after the log shows it, so the
                        // node's 15-minute edge may lie that much later than the model's)
                        let def_not_good = g3.iter().all(|x| !*x) && !c.good(t.saturating_sub(1 + grace), ro);
                        let def_live = l3.iter().all(|x| *x);
                        let def_dead = l3.iter().all(|x| !*x);
                        let rep_good = ms.good.contains(a);
                        let rep_q = ms.questionable.contains(a);
                        let mut r = reach.borrow_mut();
                        if rep_good && def_not_good {
                            findings.borrow_mut().push(("good_without_reason", t, format!("{a} reported good at {t} ms; last accepted answer {:?}, last query while known {:?}, unanswered {}", c.last_answer, c.last_query, c.unanswered)));
                        }
                        if def_good && c.last_answer.map(|x| t - x < MIN15 - 1).unwrap_or(false) && !rep_good {
                            findings.borrow_mut().push(("answered_not_good", t, format!("{a} answered at {:?} ms but is not reported good at {t} ms (reported questionable: {rep_q})", c.last_answer)));
                        }
                        if c.known && def_dead && (rep_good || rep_q) {
                            findings.borrow_mut().push(("bad_still_reported", t, format!("{a} left {} consecutive queries unanswered while not good (last answer {:?}) but is still reported at {t} ms", c.unanswered, c.last_answer)));
                        }
                        if def_live && def_not_good && !rep_q && !rep_good {
                            findings.borrow_mut().push(("questionable_missing", t, format!("{a} is known (last answer {:?}, named {:?}, unanswered {}) but not reported at {t} ms", c.last_answer, c.last_named, c.unanswered)));
                        }
                        if def_good {
                            *r.entry("sample_good").or_insert(0) += 1;
                            if c.last_answer.map(|x| t - x >= MIN15).unwrap_or(true) {
                                *r.entry("good_by_query_only").or_insert(0) += 1;
                            }
                        } else if def_live {
                            *r.entry("sample_questionable").or_insert(0) += 1;
                            if c.last_answer.is_none() {
                                *r.entry("hearsay_only_contact").or_insert(0) += 1;
                            }
                        } else if c.known && def_dead {
                            *r.entry("sample_bad").or_insert(0) += 1;
                            if c.last_named.map(|x| c.last_answer.map(|a| x > a).unwrap_or(true)).unwrap_or(false) {
                                *r.entry("renamed_after_last_answer").or_insert(0) += 1;
                            }
                        }
                    }
                },
                |t, named, st| {
                    for a in named {
                        if let Some(c) = st.get(a) {
                            let dead = [t.saturating_sub(1), t, t + 1].iter().all(|x| !c.live(*x, ro));
                            if c.known && dead && !(c.touched + 2 + grace > t) {
                                findings.borrow_mut().push(("bad_offered_to_others", t, format!("find_node reply at {t} ms names {a}, which left {} queries unanswered while not good", c.unanswered)));
                            }
                        }
                    }
                },
            );
        }
        let mut v = Verdict::default();
        let mut seen = BTreeSet::new();
        for (clause, t, d) in findings {
            if seen.insert(clause) {
                v.violate("C10", clause, t, d);
            }
        }
        for (k, n) in reach {
            v.hit_n(k, n);
        }
        if run.stats.get("fault_reply_send_err").copied().unwrap_or(0) > 0 {
            v.hit("reply_failed_to_send");
        }
        v.nontrivial = samples > 10 && v.reach.contains_key("sample_good");
        v.sample = json!({"stubs": sc.world.stubs.len(), "read_only": ro, "minutes": sc.param("minutes"), "samples": samples, "reach": v.reach});
        v
    }
    fn rule(&self) -> &'static str {
        "one real node (serving or read-only) with 1..8 stub contacts over 20..180 virtual minutes; each contact answers always / never / until t / from t / in windows whose on and off times are biased to 15 min +- {1 ms, 1 s, 1 min}, names a drawn subset of the others, and may send the node queries at gaps biased to the 15-minute edge; impostors send queries carrying a contact's id from another address; optional searches; in 1 run of 3 10..100 % of the replies the node sends fail to send (its queries never do); load_contacts sampled every 3.7..11.9 s and a find_node probe every 61 s. A reference model of the statement (last accepted answer, last query while known, consecutive unanswered queries while not good, re-admission by hearsay) is fed from the wire tap and compared with every sample. non-trivial = more than 10 samples with at least one definitely-good contact; distinct = distinct order digests"
    }
    fn assumptions(&self) -> Vec<&'static str> {
        vec!["one-way latency <= 200 ms so that every answer falls inside the 0.5 s lifetime of the query it answers", "a contact touched by an event within 2 ms of a sample is not judged at that sample; predicates must hold at t-1, t and t+1 ms", "a bad contact named again by another node is re-admitted as questionable (DESIGN.md, C10 interpretation)"]
    }
    fn required_reach(&self) -> Vec<&'static str> {
        vec!["sample_good", "sample_questionable", "sample_bad", "hearsay_only_contact", "good_by_query_only", "reply_failed_to_send"]
    }
}

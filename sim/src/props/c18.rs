//! C18 — table refresh keeps one steady cadence however often the node re-bootstraps.

use super::common::*;
use super::{Property, Tier, Verdict};
use crate::entropy::Rng;
use crate::exec::{Op, RunLog, Scenario};
use crate::log::{ApiEv, Ev};
use crate::stubs::{Answer, StubCfg};
use serde_json::json;
use std::net::SocketAddr;

pub struct C18;

const REFRESH_MS: u64 = 6000;

impl Property for C18 {
    fn id(&self) -> &'static str {
        "C18"
    }
    fn runs(&self, tier: Tier) -> u64 {
        match tier {
            Tier::Quick => 300,
            Tier::Thorough => 5000,
        }
    }
    fn generate(&self, seed: u64, idx: u64, tier: Tier) -> Scenario {
        let mut rng = Rng::new(seed ^ 0xC18 ^ idx.wrapping_mul(0x9E37_79B9_7F4A_7C15));
        let mut sc = Scenario::new("c18");
        sc.entropy_seed = rng.next();
        sc.tokio_seed = rng.next();
        let v6 = rng.chance(1, 4);
        sc.world.v6 = v6;
        sc.net = swarm_net(&mut rng, &[0, 5, 50, 300], false);
        // a little loss in some runs: changes when re-bootstraps succeed
        if rng.chance(1, 3) {
            sc.net.drop_ppm = *rng.pick(&[10_000, 100_000, 300_000]);
        }
        let mut real = default_real(v6, 0, &mut rng);
        real.read_only = rng.chance(1, 2);
        let n_stubs = rng.range(0, 9) as usize;
        // run length: minutes .. hours
        let minutes = match tier {
            Tier::Quick => *rng.pick(&[3u64, 10, 10, 20, 30, 60]),
            Tier::Thorough => *rng.pick(&[10u64, 30, 60, 120, 240, 480, 720]),
        };
        let end = minutes * 60_000;
        for i in 0..n_stubs {
            let mut s = StubCfg::honest(stub_addr(v6, i), rng.id20());
            match rng.below(5) {
                0 => {
                    // flapping contact: answers in windows only -> bursts of re-bootstraps
                    let mut w = Vec::new();
                    let mut t = 0;
                    while t < end {
                        let on = rng.range(5_000, 600_000);
                        let off = rng.range(5_000, 600_000);
                        w.push((t, t + on));
                        t += on + off;
                    }
                    s.answer = Answer::Windows(w);
                }
                1 => s.answer = Answer::SilentFrom(rng.range(0, end)),
                _ => {}
            }
            real.nodes.push(s.addr);
            sc.world.stubs.push(s);
        }
        // a contact advertised with port 0: every datagram to it fails to send (EINVAL), persistently
        // and for that destination only, while everything else works
        if n_stubs > 0 && rng.chance(1, 4) {
            let host = rng.below(n_stubs as u64) as usize;
            let refs: Vec<crate::stubs::NodeRef> = (0..rng.range(1, 2)).map(|j| crate::stubs::NodeRef { id: rng.id20(), addr: SocketAddr::new(addr(v6, 5, 1 + j as u32, 1).ip(), 0) }).collect();
            sc.world.stubs[host].nodes = crate::stubs::NodesMode::ClosestPlus(refs);
            sc.params.insert("port0_contacts".into(), 1);
        }
        // sometimes the contacts are given as routers (IP literals) instead of nodes
        if n_stubs > 0 && rng.chance(1, 5) {
            real.routers = real.nodes.drain(..).map(|a| a.to_string()).collect();
        }
        // outage in the middle of some runs
        if rng.chance(1, 4) {
            let from = rng.range(0, end / 2);
            sc.net.outages.push(crate::net::Outage {
                addr: real.addr,
                from_ms: from,
                to_ms: from + rng.range(10_000, end / 2),
                mode: if rng.chance(1, 2) {
                    crate::net::OutageMode::BlackHole
                } else {
                    crate::net::OutageMode::SendErr(101)
                },
            });
        }
        // searches in half of the runs: their time-outs are further timer entries, and some are
        // placed so that a time-out (1.5 s) or an end-game expiry (3 s) lands on the 5-second grid
        // of the periodic re-bootstrap (same-instant interleavings of timer and bootstrap events)
        let with_searches = rng.chance(1, 2);
        if with_searches {
            // a slow socket keeps the handler inside a send while the bootstrap task completes: the
            // knob that moves the handler/bootstrap interleaving (DESIGN.md 2.4)
            if rng.chance(2, 3) {
                sc.net.stall_ppm = *rng.pick(&[50_000u32, 200_000, 500_000]);
                sc.net.stall_max_ms = *rng.pick(&[20u64, 300, 2_000]);
            }
            for s in sc.world.stubs.iter_mut() {
                if rng.chance(1, 2) {
                    s.get_peers_answer = Some(Answer::Never);
                }
            }
        }
        sc.reals.push(real);
        sc.at(0, Op::Start { node: 0 });
        if with_searches {
            let n_s = rng.range(5, 120);
            for _ in 0..n_s {
                let k = rng.range(1, (end / 5_000).max(2) - 1);
                let off = match rng.below(4) {
                    0 => 3_500,
                    1 => 2_000,
                    2 => 500,
                    _ => rng.range(0, 4_999),
                };
                sc.at(k * 5_000 + off + sc.net.lat_max_ms.min(1) * rng.range(0, 3), Op::Search { node: 0, ih: rng.id20(), announce: rng.chance(1, 3) });
            }
            sc.params.insert("searches".into(), n_s as i64);
        }
        let period = *rng.pick(&[5_000u64, 7_000, 30_000]);
        let count = (end / period).min(4000) as u32;
        sc.at(1, Op::SampleEvery { node: 0, period_ms: period, count, table: false });
        sc.end_ms = end + 5_000;
        sc.params.insert("minutes".into(), minutes as i64);
        sc
    }

    fn check(&self, sc: &Scenario, run: &RunLog) -> Verdict {
        let mut v = Verdict::default();
        // (t, rounds, completions, timer_len_max)
        let mut samples: Vec<(u64, u64, u64, u64)> = Vec::new();
        for e in &run.log {
            if let Ev::Api { t, ev: ApiEv::Sample { counters, .. }, .. } = e {
                samples.push((*t, counters.refresh_rounds, counters.bootstrap_completions, counters.timer_len_max));
            }
        }
        if samples.len() < 2 {
            v.inconclusive = true;
            return v;
        }
        let last = *samples.last().unwrap();
        v.nontrivial = last.2 >= 1 && last.1 >= 2;
        v.hit_n("bootstrap_completions", last.2);
        v.hit_n("refresh_rounds", last.1);
        if last.2 >= 100 {
            v.hit("rebootstrapped_100_times");
        }
        if last.2 >= 1000 {
            v.hit("rebootstrapped_1000_times");
        }
        // every window between two samples
        let mut worst: Option<(u64, u64, u64, u64, u64)> = None;
        'outer: for i in 0..samples.len() {
            for j in (i + 1)..samples.len() {
                let (ta, ra, ca, _) = samples[i];
                let (tb, rb, cb, _) = samples[j];
                let allowed = (tb - ta) / REFRESH_MS + 1 + (cb - ca);
                if rb - ra > allowed {
                    worst = Some((ta, tb, rb - ra, allowed, cb - ca));
                    break 'outer;
                }
            }
        }
        if let Some((ta, tb, rounds, allowed, comps)) = worst {
            v.violate(
                "C18",
                "refresh_rate",
                tb,
                format!(
                    "{rounds} refresh rounds in window [{ta} ms, {tb} ms] with {comps} bootstrap completions; at most {allowed} allowed"
                ),
            );
        }
        // without searches nothing but the refresh timeout may be pending
        if sc.param("searches") > 0 {
            v.hit("run_with_searches");
        }
        if run.stats.get("fault_send_to_port_0_einval").copied().unwrap_or(0) > 0 {
            v.hit("sends_to_port_0_contact_fail");
        }
        if sc.param("searches") == 0 && last.3 > 2 {
            v.violate(
                "C18",
                "timer_queue",
                last.0,
                format!("handler timer queue reached {} pending entries with no search running", last.3),
            );
        }
        if run.overflow {
            v.hit("event_cap_hit");
        }
        v.sample = json!({
            "stubs": sc.world.stubs.len(),
            "minutes": sc.param("minutes"),
            "samples": samples.len(),
            "final": {"t_ms": last.0, "refresh_rounds": last.1, "bootstrap_completions": last.2, "timer_len_max": last.3},
        });
        v
    }
    fn rule(&self) -> &'static str {
        "one real node, 0..9 stub contacts (steady, flapping, going silent; as nodes or as routers), optional loss/outage, in half of the runs 5..120 searches (some contacts silent for get_peers) placed so that their 1.5 s time-outs and 3 s end-game expiries land on the 5-second re-bootstrap grid, with socket stalls in two thirds of those runs, 3 min..12 h of virtual time, hook counters sampled every 5..30 s; non-trivial = at least one bootstrap completion and two refresh rounds; distinct = distinct order digests of the event log"
    }
    fn assumptions(&self) -> Vec<&'static str> {
        vec!["refresh rounds and bootstrap completions are counted by hook H3/H4 counters inside the node", "await-granularity interleavings on a single-threaded runtime"]
    }
    fn required_reach(&self) -> Vec<&'static str> {
        vec!["rebootstrapped_100_times", "run_with_searches", "sends_to_port_0_contact_fail"]
    }
}

//! Scripted remote parties: an ideal-Kademlia responder population with global knowledge plus
//! behavioural variants (silent, late, erroring, garbage, chain-naming, hearsay-naming).
//! Speaks KRPC through the simulator's own codec.

use crate::krpc::{self, compact_nodes, id20, values_list, xor, Kind, Msg, Val};
use crate::log::Ms;
use crate::net::{Outgoing, Stub};
use serde::{Deserialize, Serialize};
use crate::entropy::DMap;
use std::net::{IpAddr, Ipv4Addr, Ipv6Addr, SocketAddr};

#[derive(Clone, Debug, Serialize, Deserialize, PartialEq, Eq)]
pub enum Answer {
    Always,
    Never,
    /// answers queries that arrive before t, silent from t on
    SilentFrom(Ms),
    /// silent before t
    SilentUntil(Ms),
    /// answers only inside these [from, to) windows
    Windows(Vec<(Ms, Ms)>),
    /// answers the n-th query (0-based, per stub) iff bit (n % period) of mask is set
    Pattern { period: u32, mask: u64 },
}

impl Answer {
    pub fn answers(&self, now: Ms, nth: u64) -> bool {
        match self {
            Answer::Always => true,
            Answer::Never => false,
            Answer::SilentFrom(t) => now < *t,
            Answer::SilentUntil(t) => now >= *t,
            Answer::Windows(w) => w.iter().any(|(a, b)| now >= *a && now < *b),
            Answer::Pattern { period, mask } => (mask >> (nth % (*period).max(1) as u64)) & 1 == 1,
        }
    }
}

#[derive(Clone, Debug, Serialize, Deserialize, PartialEq, Eq)]
pub enum ReplyKind {
    Normal,
    Error(i64),
    Garbage,
    /// well-formed response carrying a transaction id that differs in its last byte
    WrongTid,
}

#[derive(Clone, Debug, Serialize, Deserialize, PartialEq, Eq)]
pub struct NodeRef {
    pub id: [u8; 20],
    pub addr: SocketAddr,
}

#[derive(Clone, Debug, Serialize, Deserialize, PartialEq, Eq)]
pub enum NodesMode {
    /// the 8 listed stubs truly closest to the target (global knowledge)
    Closest,
    Empty,
    Fixed(Vec<NodeRef>),
    /// closest 8 followed by these extra names (hearsay)
    ClosestPlus(Vec<NodeRef>),
    /// as ClosestPlus in this stub's first answer only, plain Closest afterwards
    ClosestPlusOnce(Vec<NodeRef>),
    /// 8 fresh virtual nodes, each one bit closer to the target than the answering node
    Chain { limit: u32 },
}

#[derive(Clone, Debug, Serialize, Deserialize, PartialEq, Eq)]
pub struct StubCfg {
    pub addr: SocketAddr,
    pub id: [u8; 20],
    pub token: Vec<u8>,
    pub peers: Vec<([u8; 20], Vec<SocketAddr>)>,
    pub answer: Answer,
    /// overrides `answer` for get_peers queries
    pub get_peers_answer: Option<Answer>,
    pub reply: ReplyKind,
    pub delay_ms: Ms,
    pub nodes: NodesMode,
    /// whether other stubs name this one
    pub listed: bool,
    /// a node that was restarted: until the given instant it answers under this (old) id, from then
    /// on under `id`. Other stubs always name it by `id`.
    #[serde(default)]
    pub old_id: Option<(Ms, [u8; 20])>,
}

impl StubCfg {
    pub fn honest(addr: SocketAddr, id: [u8; 20]) -> StubCfg {
        let mut token = b"tk".to_vec();
        token.extend_from_slice(addr.to_string().as_bytes());
        StubCfg {
            addr,
            id,
            token,
            peers: vec![],
            answer: Answer::Always,
            get_peers_answer: None,
            reply: ReplyKind::Normal,
            delay_ms: 0,
            nodes: NodesMode::Closest,
            listed: true,
            old_id: None,
        }
    }
}

#[derive(Clone, Debug, Serialize, Deserialize, PartialEq, Eq, Default)]
pub struct WorldCfg {
    pub v6: bool,
    pub stubs: Vec<StubCfg>,
    /// stubs list themselves among the closest nodes
    pub include_self: bool,
}

pub struct StubWorld {
    cfg: WorldCfg,
    index: DMap<SocketAddr, usize>,
    nth: DMap<SocketAddr, u64>,
}

pub fn chain_addr(v6: bool, depth: u32, k: u32) -> SocketAddr {
    let d = depth.min(65535) as u16;
    if v6 {
        SocketAddr::new(
            IpAddr::V6(Ipv6Addr::new(0xfd77, 0, 0, 0, 0, 0, d, k as u16)),
            7000,
        )
    } else {
        SocketAddr::new(
            IpAddr::V4(Ipv4Addr::new(10, 77, (d & 0xff) as u8, k as u8)),
            7000 + (d >> 8),
        )
    }
}

pub fn chain_decode(a: &SocketAddr) -> Option<(u32, u32)> {
    match a.ip() {
        IpAddr::V4(ip) => {
            let o = ip.octets();
            if o[0] == 10 && o[1] == 77 && a.port() >= 7000 {
                Some((((a.port() - 7000) as u32) << 8 | o[2] as u32, o[3] as u32))
            } else {
                None
            }
        }
        IpAddr::V6(ip) => {
            let s = ip.segments();
            if s[0] == 0xfd77 && a.port() == 7000 {
                Some((s[6] as u32, s[7] as u32))
            } else {
                None
            }
        }
    }
}

/// Id of the virtual chain node (depth d >= 1, slot k): shares exactly `base + d` leading bits
/// with the target, so every depth is strictly closer than the previous one.
pub fn chain_id(target: &[u8; 20], base: u32, d: u32, k: u32) -> [u8; 20] {
    let bit = (base + d).min(150) as usize;
    let mut id = krpc::flip_bit(target, bit);
    // vary the low bits per slot (bits after `bit + 1`), keeping the shared prefix
    id[19] ^= (k as u8).wrapping_mul(37).wrapping_add(1);
    id
}

impl StubWorld {
    pub fn new(cfg: WorldCfg) -> StubWorld {
        let index = cfg.stubs.iter().enumerate().map(|(i, s)| (s.addr, i)).collect();
        StubWorld { cfg, index, nth: DMap::default() }
    }

    fn closest(&self, target: &[u8; 20], me: &SocketAddr) -> Vec<([u8; 20], SocketAddr)> {
        let mut v: Vec<([u8; 20], [u8; 20], SocketAddr)> = self
            .cfg
            .stubs
            .iter()
            .filter(|s| s.listed && (self.cfg.include_self || &s.addr != me))
            .map(|s| (xor(&s.id, target), s.id, s.addr))
            .collect();
        v.sort();
        v.into_iter().take(8).map(|(_, id, a)| (id, a)).collect()
    }

    fn nodes_key(&self) -> &'static str {
        if self.cfg.v6 {
            "nodes6"
        } else {
            "nodes"
        }
    }

    fn build_reply(
        &self,
        me_id: [u8; 20],
        me_addr: SocketAddr,
        token: &[u8],
        peers: &[([u8; 20], Vec<SocketAddr>)],
        nodes_mode: &NodesMode,
        chain_depth: u32,
        m: &Msg,
    ) -> Option<Msg> {
        let (q, a) = match &m.kind {
            Kind::Query { q, a } => (q.as_str(), a),
            _ => return None,
        };
        let mut r = Val::dict().with("id", Val::bytes(&me_id));
        let target = match q {
            "find_node" => a.get("target").and_then(id20),
            "get_peers" => a.get("info_hash").and_then(id20),
            _ => None,
        };
        if let Some(target) = target {
            let nodes: Vec<([u8; 20], SocketAddr)> = match nodes_mode {
                NodesMode::Closest => self.closest(&target, &me_addr),
                NodesMode::Empty => vec![],
                NodesMode::Fixed(l) => l.iter().map(|n| (n.id, n.addr)).collect(),
                NodesMode::ClosestPlus(l) | NodesMode::ClosestPlusOnce(l) => {
                    let mut v = self.closest(&target, &me_addr);
                    v.extend(l.iter().map(|n| (n.id, n.addr)));
                    v
                }
                NodesMode::Chain { limit } => {
                    // absolute depth = number of leading bits shared with the target; a
                    // configured stub starts the chain one bit beyond its own prefix
                    let cur = if chain_depth == 0 {
                        krpc::lcp(&me_id, &target) as u32
                    } else {
                        chain_depth
                    };
                    if cur < *limit {
                        (0..8)
                            .map(|k| {
                                (
                                    chain_id(&target, 0, cur + 1, k),
                                    chain_addr(self.cfg.v6, cur + 1, k),
                                )
                            })
                            .collect()
                    } else {
                        vec![]
                    }
                }
            };
            if !nodes.is_empty() {
                r.set(self.nodes_key(), Val::Bytes(compact_nodes(&nodes)));
            }
        }
        if q == "get_peers" {
            r.set("token", Val::bytes(token));
            if let Some(ih) = a.get("info_hash").and_then(id20) {
                if let Some((_, p)) = peers.iter().find(|(h, _)| h == &ih) {
                    if !p.is_empty() {
                        r.set("values", values_list(p));
                    }
                }
            }
        }
        Some(krpc::response(&m.t, r))
    }
}

impl Stub for StubWorld {
    fn handles(&self, addr: &SocketAddr) -> bool {
        self.index.contains_key(addr) || chain_decode(addr).is_some()
    }

    fn on_datagram(
        &mut self,
        now: Ms,
        to: SocketAddr,
        from: SocketAddr,
        data: &[u8],
        out: &mut Vec<Outgoing>,
    ) {
        let m = match Msg::parse(data) {
            Some(m) if m.is_query() => m,
            _ => return, // stubs never answer responses, errors or garbage
        };
        let nth = {
            let e = self.nth.entry(to).or_insert(0);
            let n = *e;
            *e += 1;
            n
        };
        if let Some(&i) = self.index.get(&to) {
            let mut s = self.cfg.stubs[i].clone();
            if let Some((until, old)) = s.old_id {
                if now < until {
                    s.id = old;
                }
            }
            if nth > 0 && matches!(s.nodes, NodesMode::ClosestPlusOnce(_)) {
                s.nodes = NodesMode::Closest;
            }
            let ans = match (&s.get_peers_answer, m.qname()) {
                (Some(a), Some("get_peers")) => a,
                _ => &s.answer,
            };
            if !ans.answers(now, nth) {
                return;
            }
            let bytes = match s.reply {
                ReplyKind::Normal => {
                    match self.build_reply(s.id, s.addr, &s.token, &s.peers, &s.nodes, 0, &m) {
                        Some(r) => r.encode(),
                        None => return,
                    }
                }
                ReplyKind::Error(code) => krpc::error(&m.t, code, "stub error").encode(),
                ReplyKind::Garbage => {
                    let mut g = b"d1:rd2:id20:".to_vec();
                    g.extend_from_slice(&m.t);
                    g.extend_from_slice(b"\xff\x00garbage");
                    g
                }
                ReplyKind::WrongTid => {
                    match self.build_reply(s.id, s.addr, &s.token, &s.peers, &s.nodes, 0, &m) {
                        Some(mut r) => {
                            if let Some(l) = r.t.last_mut() {
                                *l ^= 0x5a;
                            } else {
                                r.t.push(1);
                            }
                            r.encode()
                        }
                        None => return,
                    }
                }
            };
            out.push(Outgoing { from: to, to: from, bytes, extra_delay_ms: s.delay_ms });
        } else if let Some((d, k)) = chain_decode(&to) {
            // virtual chain node: knows its id only relative to the target it is asked about
            let target = m
                .args()
                .and_then(|a| a.get("info_hash").or_else(|| a.get("target")))
                .and_then(id20)
                .unwrap_or([0u8; 20]);
            let limit = self
                .cfg
                .stubs
                .iter()
                .filter_map(|s| match s.nodes {
                    NodesMode::Chain { limit } => Some(limit),
                    _ => None,
                })
                .max()
                .unwrap_or(0);
            let id = chain_id(&target, 0, d, k);
            let mut token = b"ch".to_vec();
            token.extend_from_slice(to.to_string().as_bytes());
            if let Some(r) =
                self.build_reply(id, to, &token, &[], &NodesMode::Chain { limit }, d, &m)
            {
                out.push(Outgoing { from: to, to: from, bytes: r.encode(), extra_delay_ms: 0 });
            }
        }
    }
}

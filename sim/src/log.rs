//! Event log: the recorded history every oracle works from.

use crate::entropy::Fnv;
use serde::{Deserialize, Serialize};
use std::net::SocketAddr;

pub type Ms = u64;

#[derive(Clone, Copy, Debug, PartialEq, Eq, Serialize, Deserialize)]
pub enum EpKind {
    Real,
    Probe,
    Stub,
    Nobody,
}

#[derive(Clone, Debug, PartialEq, Eq)]
pub enum SendOutcome {
    /// queued for delivery after `lat` ms; `dup` = latency of a duplicate copy; `corrupt` = the
    /// delivered bytes differ from the sent bytes.
    Queued { lat: Ms, dup: Option<Ms>, corrupt: bool },
    Dropped,
    /// `send_to` returned an io::Error (raw os error code)
    SendErr(i32),
    /// accepted by the socket, never delivered (outage / crashed peer)
    BlackHoled,
    Partitioned,
}

#[derive(Clone, Debug, PartialEq, Eq, Serialize, Deserialize)]
pub struct Slot {
    pub id: [u8; 20],
    pub addr: SocketAddr,
    /// 0 = bad, 1 = questionable, 2 = good
    pub status: u8,
}

#[derive(Clone, Debug, PartialEq, Eq, Serialize, Deserialize)]
pub struct TableDump {
    pub node_id: [u8; 20],
    pub routers: Vec<SocketAddr>,
    /// every slot of every bucket, including bad/empty placeholder slots
    pub buckets: Vec<Vec<Slot>>,
}

impl TableDump {
    pub fn live(&self) -> impl Iterator<Item = (usize, &Slot)> {
        self.buckets
            .iter()
            .enumerate()
            .flat_map(|(i, b)| b.iter().filter(|s| s.status > 0).map(move |s| (i, s)))
    }
}

#[derive(Clone, Debug, PartialEq, Eq, Default)]
pub struct Counters {
    pub refresh_rounds: u64,
    pub bootstrap_completions: u64,
    pub timer_len: u64,
    pub timer_len_max: u64,
    pub incarnations: u64,
}

#[derive(Clone, Debug, PartialEq, Eq)]
pub enum ApiEv {
    NodeStart { node: usize, addr: SocketAddr, ok: bool },
    NodeDrop { node: usize, crash: bool },
    SearchStart { node: usize, ih: [u8; 20], announce: bool },
    SearchItem { addr: SocketAddr },
    SearchEnd,
    /// the caller dropped the stream before it ended
    SearchDropped,
    BootCall { node: usize },
    BootDone { ok: bool },
    Sample {
        node: usize,
        /// get_state(): (is_running, bootstrapped, good, questionable, buckets)
        state: Option<(bool, bool, usize, usize, usize)>,
        contacts: Option<(Vec<SocketAddr>, Vec<SocketAddr>)>,
        local_addr_ok: bool,
        table: Option<TableDump>,
        counters: Counters,
    },
    ProbeSent { bytes: Vec<u8>, to: SocketAddr, from: SocketAddr },
    ProbeReply { bytes: Vec<u8>, from: SocketAddr },
    ProbeTimeout,
    /// one full enumeration through `closest_nodes(target)` (hook H2) at this instant
    Closest { node: usize, target: [u8; 20], ids: Vec<([u8; 20], SocketAddr)>, table: TableDump },
    Note(String),
    StepDone,
}

#[derive(Clone, Debug, PartialEq, Eq)]
pub enum Ev {
    Send {
        t: Ms,
        seq: u64,
        src: SocketAddr,
        dst: SocketAddr,
        ord: u64,
        src_kind: EpKind,
        bytes: Vec<u8>,
        outcome: SendOutcome,
    },
    Deliver {
        t: Ms,
        /// seq of the Send event this copy belongs to
        seq: u64,
        copy: u8,
        src: SocketAddr,
        dst: SocketAddr,
        dst_kind: EpKind,
        bytes: Vec<u8>,
        corrupted: bool,
    },
    /// a real node's `recv_from` handed this datagram to the node: the instant (and, within one
    /// virtual millisecond, the ORDER relative to the node's own sends) at which it is processed
    Recv {
        t: Ms,
        seq: u64,
        src: SocketAddr,
        dst: SocketAddr,
        bytes: Vec<u8>,
        corrupted: bool,
    },
    Api { t: Ms, step: usize, ev: ApiEv },
    Fault { t: Ms, what: String },
    Invariant { t: Ms, node: SocketAddr, clause: String, detail: String },
}

impl Ev {
    pub fn t(&self) -> Ms {
        match self {
            Ev::Send { t, .. }
            | Ev::Deliver { t, .. }
            | Ev::Recv { t, .. }
            | Ev::Api { t, .. }
            | Ev::Fault { t, .. }
            | Ev::Invariant { t, .. } => *t,
        }
    }

    /// Full digest: everything, including payload bytes.
    pub fn feed(&self, h: &mut Fnv) {
        match self {
            Ev::Send { t, seq, src, dst, ord, src_kind, bytes, outcome } => {
                h.str("S");
                h.u64(*t);
                h.u64(*seq);
                h.u64(*ord);
                h.u64(*src_kind as u64);
                h.str(&src.to_string());
                h.str(&dst.to_string());
                h.u64(bytes.len() as u64);
                h.bytes(bytes);
                h.str(&format!("{outcome:?}"));
            }
            Ev::Deliver { t, seq, copy, src, dst, dst_kind, bytes, corrupted } => {
                h.str("D");
                h.u64(*t);
                h.u64(*seq);
                h.u64(*copy as u64);
                h.u64(*dst_kind as u64);
                h.u64(*corrupted as u64);
                h.str(&src.to_string());
                h.str(&dst.to_string());
                h.u64(bytes.len() as u64);
                h.bytes(bytes);
            }
            other => h.str(&format!("{other:?}")),
        }
    }

    /// Order digest: kinds, endpoints and message tags only — no payload bytes, no times.
    pub fn feed_order(&self, h: &mut Fnv) {
        match self {
            Ev::Send { src, dst, bytes, outcome, .. } => {
                h.str("S");
                h.str(&src.to_string());
                h.str(&dst.to_string());
                h.str(&tag_of(bytes));
                h.str(match outcome {
                    SendOutcome::Queued { .. } => "q",
                    SendOutcome::Dropped => "d",
                    SendOutcome::SendErr(_) => "e",
                    SendOutcome::BlackHoled => "b",
                    SendOutcome::Partitioned => "p",
                });
            }
            Ev::Deliver { src, dst, bytes, .. } => {
                h.str("D");
                h.str(&src.to_string());
                h.str(&dst.to_string());
                h.str(&tag_of(bytes));
            }
            Ev::Recv { src, dst, bytes, .. } => {
                h.str("R");
                h.str(&src.to_string());
                h.str(&dst.to_string());
                h.str(&tag_of(bytes));
            }
            Ev::Api { step, ev, .. } => {
                h.str("A");
                h.u64(*step as u64);
                h.str(match ev {
                    ApiEv::NodeStart { .. } => "ns",
                    ApiEv::NodeDrop { .. } => "nd",
                    ApiEv::SearchStart { .. } => "ss",
                    ApiEv::SearchItem { .. } => "si",
                    ApiEv::SearchEnd => "se",
                    ApiEv::SearchDropped => "sx",
                    ApiEv::BootCall { .. } => "bc",
                    ApiEv::BootDone { .. } => "bd",
                    ApiEv::Sample { .. } => "sa",
                    ApiEv::ProbeSent { .. } => "ps",
                    ApiEv::ProbeReply { .. } => "pr",
                    ApiEv::ProbeTimeout => "pt",
                    ApiEv::Closest { .. } => "cl",
                    ApiEv::Note(_) => "no",
                    ApiEv::StepDone => "sd",
                });
            }
            Ev::Fault { what, .. } => {
                h.str("F");
                h.str(what);
            }
            Ev::Invariant { clause, .. } => {
                h.str("I");
                h.str(clause);
            }
        }
    }
}

pub fn tag_of(bytes: &[u8]) -> String {
    match crate::krpc::Msg::parse(bytes) {
        Some(m) => m.tag(),
        None => "?".into(),
    }
}

/// A violation of one property clause found by an oracle.
#[derive(Clone, Debug, Serialize, Deserialize, PartialEq, Eq)]
pub struct Violation {
    pub property: String,
    /// stable short name of the oracle clause (violation class used by the minimiser)
    pub clause: String,
    pub detail: String,
    pub t: Ms,
}

pub fn fmt_ev(e: &Ev) -> String {
    match e {
        Ev::Send { t, src, dst, bytes, outcome, ord, .. } => format!(
            "t={t:>9} SEND  {src} -> {dst} #{ord} {:?} {}",
            outcome,
            show_bytes(bytes)
        ),
        Ev::Deliver { t, src, dst, bytes, dst_kind, copy, .. } => format!(
            "t={t:>9} DELIV {src} -> {dst} ({dst_kind:?}, copy {copy}) {}",
            show_bytes(bytes)
        ),
        Ev::Recv { t, src, dst, bytes, .. } => format!("t={t:>9} RECV  {src} -> {dst} {}", show_bytes(bytes)),
        Ev::Api { t, step, ev } => {
            let s = format!("{ev:?}");
            format!("t={t:>9} API   step {step}: {}", if s.len() > 600 { &s[..600] } else { &s })
        }
        Ev::Fault { t, what } => format!("t={t:>9} FAULT {what}"),
        Ev::Invariant { t, node, clause, detail } => {
            format!("t={t:>9} INVARIANT {node} {clause}: {detail}")
        }
    }
}

pub fn show_bytes(b: &[u8]) -> String {
    match crate::krpc::Msg::parse(b) {
        Some(m) => {
            let mut s = format!("{} t={}", m.tag(), crate::krpc::hex(&m.t));
            if let Some(r) = m.resp() {
                if let Some(v) = r.get("values").and_then(crate::krpc::parse_values) {
                    s.push_str(&format!(" values={v:?}"));
                }
                for k in ["nodes", "nodes6"] {
                    if let Some(n) = r.get(k).and_then(|x| x.as_bytes()) {
                        s.push_str(&format!(" {k}={}B", n.len()));
                    }
                }
                if r.get("token").is_some() {
                    s.push_str(" +token");
                }
            }
            s.push_str(&format!(" [{}B]", b.len()));
            s
        }
        None => format!("?? {}B {}", b.len(), crate::krpc::hex(&b[..b.len().min(24)])),
    }
}


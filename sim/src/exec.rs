//! Universal scenario type and executor: real `MainlineDht` nodes + stub world + probes on the
//! simulated network, driven by a timed workload script. Produces the event log.

use crate::krpc::{self, Msg, Val};
use crate::log::{ApiEv, Counters, Ev, Ms, SendOutcome};
use crate::net::{Net, NetCfg, ProbeSocket};
use crate::stubs::{StubWorld, WorldCfg};
use crate::tablemon;
use btdht::{InfoHash, MainlineDht};
use futures_util::StreamExt;
use serde::{Deserialize, Serialize};
use crate::entropy::DMap;
use std::collections::BTreeMap;
use std::net::SocketAddr;
use std::sync::{Arc, Mutex};
use std::time::Duration;

#[derive(Clone, Debug, Serialize, Deserialize, PartialEq, Eq)]
pub struct RealCfg {
    pub addr: SocketAddr,
    pub id: Option<[u8; 20]>,
    pub read_only: bool,
    pub announce_port: Option<u16>,
    pub nodes: Vec<SocketAddr>,
    pub routers: Vec<String>,
}

#[derive(Clone, Debug, Serialize, Deserialize, PartialEq, Eq)]
pub enum When {
    At(Ms),
    /// `delay` ms after step `step` has completed
    After { step: usize, delay: Ms },
}

#[derive(Clone, Debug, Serialize, Deserialize, PartialEq, Eq)]
pub enum TokenSpec {
    /// token carried by the reply to an earlier probe step (empty if there was none)
    FromStep(usize),
    Bytes(Vec<u8>),
}

#[derive(Clone, Debug, Serialize, Deserialize, PartialEq, Eq)]
pub enum ProbeMsg {
    Bytes(Vec<u8>),
    Announce {
        tid: Vec<u8>,
        id: [u8; 20],
        ih: [u8; 20],
        /// None = implied_port=1 (port field 0)
        port: Option<u16>,
        token: TokenSpec,
    },
}

#[derive(Clone, Debug, Serialize, Deserialize, PartialEq, Eq)]
pub enum ForgeTid {
    /// id of the most recent get_peers query the node sent for this info-hash (any state)
    LatestGetPeers { ih: [u8; 20] },
    /// id of the n-th get_peers query the node sent for this info-hash
    NthGetPeers { ih: [u8; 20], n: usize },
    /// id of the most recent find_node query the node sent (bootstrap or refresh)
    LatestFindNode,
    Bytes(Vec<u8>),
    /// an observed id (per `base`), cut to `keep` bytes, with `append` added: a wrong-length id
    /// derived from a real one
    Derived { base: Box<ForgeTid>, keep: usize, append: Vec<u8> },
}

#[derive(Clone, Debug, Serialize, Deserialize, PartialEq, Eq)]
pub enum ForgeFrom {
    /// the address the chosen query was sent to
    Queried,
    Addr(SocketAddr),
}

#[derive(Clone, Debug, Serialize, Deserialize, PartialEq, Eq)]
pub enum Op {
    Start { node: usize },
    Drop { node: usize, crash: bool },
    Search { node: usize, ih: [u8; 20], announce: bool },
    /// a search whose stream the caller does not simply read to the end
    SearchX { node: usize, ih: [u8; 20], announce: bool, mode: Consume },
    Bootstrapped { node: usize },
    /// bootstrapped() whose future the caller drops after `cancel_after_ms` if still unresolved
    BootstrappedX { node: usize, cancel_after_ms: Ms },
    Sample { node: usize, table: bool },
    SampleEvery { node: usize, period_ms: Ms, count: u32, table: bool },
    Probe { from: SocketAddr, to: SocketAddr, msg: ProbeMsg, timeout_ms: Ms },
    Raw { from: SocketAddr, to: SocketAddr, bytes: Vec<u8> },
    /// forged response towards a real node, built from what the wire tap has seen
    Forge {
        node: usize,
        tid: ForgeTid,
        from: ForgeFrom,
        responder_id: [u8; 20],
        values: Vec<SocketAddr>,
        token: Option<Vec<u8>>,
        nodes: Vec<([u8; 20], SocketAddr)>,
    },
    /// enumerate closest_nodes(target) on the live table (hook H2)
    Closest { node: usize, target: [u8; 20] },
    RecvErr { node: usize, count: u32 },
    Nop,
}

/// How the caller treats the `SearchStream` of a `SearchX` step.
#[derive(Clone, Debug, Serialize, Deserialize, PartialEq, Eq)]
pub enum Consume {
    /// read items as they come, drop the stream `ms` after the call (fire-and-forget when 0)
    DropAfterMs(Ms),
    /// read until `n` items have been yielded, then drop the stream
    DropAfterItems(u32),
    /// do not poll the stream at all for `ms`, then read it to the end
    PollAfterMs(Ms),
}

#[derive(Clone, Debug, Serialize, Deserialize, PartialEq, Eq)]
pub struct Step {
    pub when: When,
    pub op: Op,
}

#[derive(Clone, Debug, Serialize, Deserialize, PartialEq, Eq)]
pub struct Scenario {
    pub family: String,
    pub entropy_seed: u64,
    pub tokio_seed: u64,
    pub net: NetCfg,
    pub reals: Vec<RealCfg>,
    pub world: WorldCfg,
    pub steps: Vec<Step>,
    /// hard cap on virtual time
    pub end_ms: Ms,
    /// free-form oracle parameters and generator notes
    pub params: BTreeMap<String, i64>,
    /// payload for families with their own executor (table histories, generator soak)
    #[serde(default)]
    pub blob: Vec<u64>,
    /// byte strings for decode-level families
    #[serde(default)]
    pub inputs: Vec<Vec<u8>>,
    /// operation history for the component-level routing-table family (C08)
    #[serde(default)]
    pub table_ops: Vec<TableOp>,
}

/// One operation on a `RoutingTable` owned by the harness (hook H2).
#[derive(Clone, Debug, Serialize, Deserialize, PartialEq, Eq)]
pub enum TableOp {
    /// add_node(Node::as_good(..)): a node that just answered
    OfferGood { id: [u8; 20], addr: SocketAddr },
    /// add_node(Node::as_questionable(..)): a node named by somebody else
    OfferHearsay { id: [u8; 20], addr: SocketAddr },
    /// add_nodes(good, hearsay..) as the handler calls it for one response
    AddNodes { id: [u8; 20], addr: SocketAddr, named: Vec<([u8; 20], SocketAddr)> },
    /// we sent the node a query
    LocalRequest { id: [u8; 20], addr: SocketAddr },
    /// the node sent us a query
    RemoteRequest { id: [u8; 20], addr: SocketAddr },
    Advance { ms: u64 },
    SetRouters { addrs: Vec<SocketAddr> },
}

impl Scenario {
    pub fn new(family: &str) -> Scenario {
        Scenario {
            family: family.to_string(),
            entropy_seed: 0,
            tokio_seed: 0,
            net: NetCfg::default(),
            reals: vec![],
            world: WorldCfg::default(),
            steps: vec![],
            end_ms: 60_000,
            params: BTreeMap::new(),
            blob: vec![],
            inputs: vec![],
            table_ops: vec![],
        }
    }
    pub fn at(&mut self, t: Ms, op: Op) -> usize {
        self.steps.push(Step { when: When::At(t), op });
        self.steps.len() - 1
    }
    pub fn after(&mut self, step: usize, delay: Ms, op: Op) -> usize {
        self.steps.push(Step { when: When::After { step, delay }, op });
        self.steps.len() - 1
    }
    pub fn param(&self, k: &str) -> i64 {
        self.params.get(k).copied().unwrap_or(0)
    }
}

/// Everything an oracle gets to see.
pub struct RunLog {
    pub log: Vec<Ev>,
    pub digest: u64,
    pub order_digest: u64,
    pub stats: BTreeMap<String, u64>,
    pub fired: Vec<crate::net::ExplicitFault>,
    pub end_ms: Ms,
    pub overflow: bool,
    pub timed_out: bool,
    pub panics: Vec<String>,
    pub entropy_drawn: u64,
}

thread_local! {
    pub static PANICS: std::cell::RefCell<Vec<String>> = const { std::cell::RefCell::new(Vec::new()) };
}

pub fn install_panic_hook() {
    std::panic::set_hook(Box::new(|info| {
        let msg = format!("{info}");
        let _ = PANICS.try_with(|p| p.borrow_mut().push(msg.clone()));
        if std::env::var_os("VERIF_SHOW_PANICS").is_some() {
            eprintln!("[panic] {msg}");
        }
    }));
}

struct Shared {
    net: Net,
    sc: Scenario,
    nodes: Mutex<Vec<Option<MainlineDht>>>,
    probes: Mutex<DMap<SocketAddr, ProbeSocket>>,
    done: Vec<tokio::sync::watch::Sender<Option<Ms>>>,
    /// reply bytes per probe step
    replies: Mutex<DMap<usize, Vec<u8>>>,
    /// per real node: bumped by Op::Drop. A pending bootstrapped() future borrows a handle, so
    /// "the application drops every handle" includes dropping those futures: waiters watch this.
    dropped: Vec<tokio::sync::watch::Sender<u64>>,
}

fn ih(b: &[u8; 20]) -> InfoHash {
    InfoHash::from(*b)
}

impl Shared {
    fn probe(&self, addr: SocketAddr) -> ProbeSocket {
        self.probes
            .lock()
            .unwrap()
            .entry(addr)
            .or_insert_with(|| self.net.probe_socket(addr))
            .clone()
    }

    fn node(&self, i: usize) -> Option<MainlineDht> {
        self.nodes.lock().unwrap().get(i).cloned().flatten()
    }

    fn start_node(&self, i: usize, step: usize) {
        let cfg = &self.sc.reals[i];
        let sock = self.net.real_socket(cfg.addr);
        let mut b = MainlineDht::builder().set_read_only(cfg.read_only);
        if let Some(id) = cfg.id {
            b = b.set_node_id(InfoHash::from(id));
        }
        if let Some(p) = cfg.announce_port {
            b = b.set_announce_port(p);
        }
        for n in &cfg.nodes {
            b = b.add_node(*n);
        }
        for r in &cfg.routers {
            b = b.add_router(r.clone());
        }
        let r = b.start(sock);
        let ok = r.is_ok();
        if let Ok(dht) = r {
            let mut nodes = self.nodes.lock().unwrap();
            if nodes.len() <= i {
                nodes.resize(i + 1, None);
            }
            nodes[i] = Some(dht);
        }
        self.net.api(step, ApiEv::NodeStart { node: i, addr: cfg.addr, ok });
    }

    async fn sample(&self, node: usize, step: usize, table: bool) {
        let addr = self.sc.reals[node].addr;
        let dht = self.node(node);
        let (state, contacts, local_addr_ok) = match &dht {
            Some(d) => {
                // every API call is bounded: a dead handler must not hang the sampler
                let st = tokio::time::timeout(Duration::from_secs(60), d.get_state())
                    .await
                    .ok()
                    .flatten()
                    .map(|s| {
                        (
                            s.is_running,
                            s.bootstrapped,
                            s.good_node_count,
                            s.questionable_node_count,
                            s.bucket_count,
                        )
                    });
                let c = tokio::time::timeout(Duration::from_secs(60), d.load_contacts())
                    .await
                    .ok()
                    .and_then(|r| r.ok())
                    .map(|(g, q)| {
                        let mut g: Vec<_> = g.into_iter().collect();
                        let mut q: Vec<_> = q.into_iter().collect();
                        g.sort();
                        q.sort();
                        (g, q)
                    });
                let la = tokio::time::timeout(Duration::from_secs(60), d.local_addr())
                    .await
                    .ok()
                    .map(|r| r.is_ok())
                    .unwrap_or(false);
                (st, c, la)
            }
            None => (None, None, false),
        };
        let p = btdht::verif::probe(&addr).unwrap_or_default();
        let counters = Counters {
            refresh_rounds: p.refresh_rounds,
            bootstrap_completions: p.bootstrap_completions,
            timer_len: p.timer_len as u64,
            timer_len_max: p.timer_len_max as u64,
            incarnations: p.incarnations,
        };
        let tab = if table { tablemon::dump(&addr) } else { None };
        self.net.api(
            step,
            ApiEv::Sample { node, state, contacts, local_addr_ok, table: tab, counters },
        );
    }

    fn find_query(&self, node: usize, tid: &ForgeTid) -> Option<(Vec<u8>, SocketAddr)> {
        if let ForgeTid::Derived { base, keep, append } = tid {
            let (mut t, a) = self.find_query(node, base)?;
            t.truncate(*keep);
            t.extend_from_slice(append);
            return Some((t, a));
        }
        let addr = self.sc.reals[node].addr;
        let n = self.net.lock();
        let mut hits: Vec<(Vec<u8>, SocketAddr)> = Vec::new();
        for ev in n.log.iter() {
            if let Ev::Send { src, dst, bytes, .. } = ev {
                if *src != addr {
                    continue;
                }
                if let Some(m) = Msg::parse(bytes) {
                    match (tid, m.qname()) {
                        (ForgeTid::LatestGetPeers { ih }, Some("get_peers"))
                        | (ForgeTid::NthGetPeers { ih, .. }, Some("get_peers")) => {
                            if m.args().and_then(|a| a.get("info_hash")).and_then(krpc::id20)
                                == Some(*ih)
                            {
                                hits.push((m.t.clone(), *dst));
                            }
                        }
                        (ForgeTid::LatestFindNode, Some("find_node")) => {
                            hits.push((m.t.clone(), *dst))
                        }
                        _ => {}
                    }
                }
            }
        }
        match tid {
            ForgeTid::NthGetPeers { n, .. } => hits.get(*n).cloned(),
            ForgeTid::Bytes(_) => None,
            _ => hits.last().cloned(),
        }
    }

    async fn run_op(self: &Arc<Self>, step: usize, op: &Op) {
        match op {
            Op::Nop => {}
            Op::Start { node } => self.start_node(*node, step),
            Op::Drop { node, crash } => {
                let addr = self.sc.reals[*node].addr;
                if *crash {
                    self.net.kill(addr);
                }
                if let Some(slot) = self.nodes.lock().unwrap().get_mut(*node) {
                    *slot = None;
                }
                if let Some(tx) = self.dropped.get(*node) {
                    tx.send_modify(|x| *x += 1);
                }
                self.net.api(step, ApiEv::NodeDrop { node: *node, crash: *crash });
            }
            Op::Search { node, ih: h, announce } => {
                self.net.api(
                    step,
                    ApiEv::SearchStart { node: *node, ih: *h, announce: *announce },
                );
                if let Some(d) = self.node(*node) {
                    let mut s = d.search(ih(h), *announce);
                    drop(d);
                    while let Some(a) = s.next().await {
                        self.net.api(step, ApiEv::SearchItem { addr: a });
                    }
                }
                self.net.api(step, ApiEv::SearchEnd);
            }
            Op::SearchX { node, ih: h, announce, mode } => {
                self.net.api(
                    step,
                    ApiEv::SearchStart { node: *node, ih: *h, announce: *announce },
                );
                if let Some(d) = self.node(*node) {
                    let mut s = d.search(ih(h), *announce);
                    drop(d);
                    match mode {
                        Consume::PollAfterMs(ms) => {
                            tokio::time::sleep(Duration::from_millis(*ms)).await;
                            self.net.api(step, ApiEv::Note("poll_start".into()));
                            while let Some(a) = s.next().await {
                                self.net.api(step, ApiEv::SearchItem { addr: a });
                            }
                        }
                        Consume::DropAfterMs(ms) => {
                            let deadline = tokio::time::Instant::now() + Duration::from_millis(*ms);
                            loop {
                                match tokio::time::timeout_at(deadline, s.next()).await {
                                    Ok(Some(a)) => self.net.api(step, ApiEv::SearchItem { addr: a }),
                                    Ok(None) => break,
                                    Err(_) => {
                                        drop(s);
                                        self.net.api(step, ApiEv::SearchDropped);
                                        return;
                                    }
                                }
                            }
                        }
                        Consume::DropAfterItems(n) => {
                            let mut got = 0u32;
                            loop {
                                if got >= *n {
                                    drop(s);
                                    self.net.api(step, ApiEv::SearchDropped);
                                    return;
                                }
                                match s.next().await {
                                    Some(a) => {
                                        got += 1;
                                        self.net.api(step, ApiEv::SearchItem { addr: a });
                                    }
                                    None => break,
                                }
                            }
                        }
                    }
                }
                self.net.api(step, ApiEv::SearchEnd);
            }
            Op::Bootstrapped { node } => {
                self.net.api(step, ApiEv::BootCall { node: *node });
                let mut gone = self.dropped[*node].subscribe();
                let ok = match self.node(*node) {
                    Some(d) => {
                        tokio::select! {
                            biased;
                            ok = d.bootstrapped() => Some(ok),
                            _ = gone.changed() => None,
                        }
                    }
                    None => Some(false),
                };
                match ok {
                    Some(ok) => self.net.api(step, ApiEv::BootDone { ok }),
                    // the application dropped the node (and with it this pending future)
                    None => self.net.api(step, ApiEv::Note("boot_cancelled".into())),
                }
            }
            Op::BootstrappedX { node, cancel_after_ms } => {
                self.net.api(step, ApiEv::BootCall { node: *node });
                match self.node(*node) {
                    Some(d) => {
                        let mut gone = self.dropped[*node].subscribe();
                        let r = tokio::select! {
                            biased;
                            r = tokio::time::timeout(Duration::from_millis(*cancel_after_ms), d.bootstrapped()) => r.ok(),
                            _ = gone.changed() => None,
                        };
                        match r {
                            Some(ok) => self.net.api(step, ApiEv::BootDone { ok }),
                            None => self.net.api(step, ApiEv::Note("boot_cancelled".into())),
                        }
                    }
                    None => self.net.api(step, ApiEv::BootDone { ok: false }),
                }
            }
            Op::Sample { node, table } => self.sample(*node, step, *table).await,
            Op::SampleEvery { node, period_ms, count, table } => {
                for i in 0..*count {
                    if i > 0 {
                        tokio::time::sleep(Duration::from_millis(*period_ms)).await;
                    }
                    self.sample(*node, step, *table).await;
                }
            }
            Op::Probe { from, to, msg, timeout_ms } => {
                let p = self.probe(*from);
                let bytes = match msg {
                    ProbeMsg::Bytes(b) => b.clone(),
                    ProbeMsg::Announce { tid, id, ih, port, token } => {
                        let tok = match token {
                            TokenSpec::Bytes(b) => b.clone(),
                            TokenSpec::FromStep(s) => self
                                .replies
                                .lock()
                                .unwrap()
                                .get(s)
                                .and_then(|b| Msg::parse(b))
                                .and_then(|m| {
                                    m.resp()
                                        .and_then(|r| r.get("token"))
                                        .and_then(|t| t.as_bytes())
                                        .map(|t| t.to_vec())
                                })
                                .unwrap_or_default(),
                        };
                        let mut a = Val::dict()
                            .with("id", Val::bytes(id))
                            .with("info_hash", Val::bytes(ih))
                            .with("token", Val::Bytes(tok));
                        match port {
                            Some(p) => {
                                a.set("port", Val::Int(*p as i64));
                            }
                            None => {
                                a.set("port", Val::Int(0));
                                a.set("implied_port", Val::Int(1));
                            }
                        }
                        krpc::query(tid, "announce_peer", a).encode()
                    }
                };
                let tid = Msg::parse(&bytes).map(|m| m.t);
                self.net.api(
                    step,
                    ApiEv::ProbeSent { bytes: bytes.clone(), to: *to, from: *from },
                );
                p.send(*to, bytes);
                if *timeout_ms > 0 {
                    let to_addr = *to;
                    let r = p
                        .recv_match(
                            |d, f| {
                                *f == to_addr
                                    && match (&tid, Msg::parse(d)) {
                                        (Some(t), Some(m)) => &m.t == t && !m.is_query(),
                                        (None, _) => true,
                                        (_, None) => false,
                                    }
                            },
                            *timeout_ms,
                        )
                        .await;
                    match r {
                        Some((b, f)) => {
                            self.replies.lock().unwrap().insert(step, b.clone());
                            self.net.api(step, ApiEv::ProbeReply { bytes: b, from: f });
                        }
                        None => self.net.api(step, ApiEv::ProbeTimeout),
                    }
                }
            }
            Op::Raw { from, to, bytes } => {
                self.net.send_raw(*from, *to, bytes.clone());
            }
            Op::Forge { node, tid, from, responder_id, values, token, nodes } => {
                let to = self.sc.reals[*node].addr;
                let found = self.find_query(*node, tid);
                let (t, queried) = match (tid, &found) {
                    (ForgeTid::Bytes(b), _) => (b.clone(), None),
                    (_, Some((t, a))) => (t.clone(), Some(*a)),
                    (_, None) => {
                        self.net.api(step, ApiEv::Note("forge: no matching query yet".into()));
                        return;
                    }
                };
                let src = match (from, queried) {
                    (ForgeFrom::Addr(a), _) => *a,
                    (ForgeFrom::Queried, Some(a)) => a,
                    (ForgeFrom::Queried, None) => return,
                };
                let mut r = Val::dict().with("id", Val::bytes(responder_id));
                if !values.is_empty() {
                    r.set("values", krpc::values_list(values));
                }
                if let Some(tk) = token {
                    r.set("token", Val::Bytes(tk.clone()));
                }
                if !nodes.is_empty() {
                    let key = if to.is_ipv6() { "nodes6" } else { "nodes" };
                    r.set(key, Val::Bytes(krpc::compact_nodes(nodes)));
                }
                self.net.fault_note(format!("forge tid={} from={}", krpc::hex(&t), src));
                self.net.lock().bump("fault_forge");
                self.net.send_raw(src, to, krpc::response(&t, r).encode());
            }
            Op::Closest { node, target } => {
                let addr = self.sc.reals[*node].addr;
                if let Some(tab) = btdht::verif::probe(&addr).and_then(|p| p.table) {
                    if let Ok(g) = tab.try_lock() {
                        let ids: Vec<([u8; 20], SocketAddr)> = g
                            .closest_nodes(InfoHash::from(*target))
                            .map(|n| (n.id().into(), n.addr()))
                            .collect();
                        let table = tablemon::dump_table(&g);
                        drop(g);
                        self.net.api(
                            step,
                            ApiEv::Closest { node: *node, target: *target, ids, table },
                        );
                    }
                }
            }
            Op::RecvErr { node, count } => {
                self.net.inject_recv_errors(self.sc.reals[*node].addr, *count);
                self.net.fault_note(format!("recv_err node={node} count={count}"));
            }
        }
    }
}

/// Run one scenario to completion inside the current (paused, current-thread) tokio runtime.
pub async fn execute(sc: &Scenario) -> RunLog {
    btdht::verif::reset();
    PANICS.with(|p| p.borrow_mut().clear());
    let net = Net::new(sc.net.clone());
    net.set_stub(Box::new(StubWorld::new(sc.world.clone())));
    let delivery = tokio::spawn(net.clone().run_delivery());

    let done: Vec<_> = sc.steps.iter().map(|_| tokio::sync::watch::channel(None).0).collect();
    let shared = Arc::new(Shared {
        net: net.clone(),
        sc: sc.clone(),
        nodes: Mutex::new(vec![None; sc.reals.len()]),
        probes: Mutex::new(DMap::default()),
        done,
        replies: Mutex::new(DMap::default()),
        dropped: sc.reals.iter().map(|_| tokio::sync::watch::channel(0u64).0).collect(),
    });

    let mut handles = Vec::new();
    for (i, st) in sc.steps.iter().enumerate() {
        let sh = shared.clone();
        let st = st.clone();
        handles.push(tokio::spawn(async move {
            match st.when {
                When::At(t) => {
                    let now = sh.net.now();
                    if t > now {
                        tokio::time::sleep(Duration::from_millis(t - now)).await;
                    }
                }
                When::After { step, delay } => {
                    if step < sh.done.len() {
                        let mut rx = sh.done[step].subscribe();
                        while rx.borrow().is_none() {
                            if rx.changed().await.is_err() {
                                break;
                            }
                        }
                    }
                    if delay > 0 {
                        tokio::time::sleep(Duration::from_millis(delay)).await;
                    }
                }
            }
            sh.run_op(i, &st.op).await;
            let t = sh.net.now();
            sh.net.api(i, ApiEv::StepDone);
            let _ = sh.done[i].send(Some(t));
        }));
    }

    // watchdog: stop on event overflow
    let aborts: Vec<_> = handles.iter().map(|h| h.abort_handle()).collect();
    let all = futures_util::future::join_all(handles);
    let net2 = net.clone();
    let watchdog = async move {
        loop {
            tokio::time::sleep(Duration::from_secs(30)).await;
            if net2.lock().overflow {
                break;
            }
        }
    };
    let mut timed_out = false;
    tokio::select! {
        biased;
        _ = all => {}
        _ = watchdog => {}
        _ = tokio::time::sleep(Duration::from_millis(sc.end_ms)) => { timed_out = true; }
    }
    for h in &aborts {
        h.abort();
    }
    // drop every node handle: handlers shut down, bootstrap tasks are aborted
    shared.nodes.lock().unwrap().clear();
    delivery.abort();
    tokio::task::yield_now().await;

    let mut n = net.lock();
    let end_ms = n.now();
    let log = std::mem::take(&mut n.log);
    RunLog {
        log,
        digest: n.digest.0,
        order_digest: n.order_digest.0,
        stats: n.stats.clone(),
        fired: n.fired.clone(),
        end_ms,
        overflow: n.overflow,
        timed_out,
        panics: PANICS.with(|p| p.borrow().clone()),
        entropy_drawn: crate::entropy::drawn(),
    }
}

/// Run a scenario on a fresh OS thread with its own seeded runtime: the result depends on the
/// scenario value only.
pub fn run_scenario(sc: &Scenario) -> Result<RunLog, String> {
    run_scenario_with(sc, false)
}

/// As `run_scenario`; with `monitor_alloc` the largest single allocation request made on the
/// simulation thread is reported as stats["alloc_peak"].
pub fn run_scenario_with(sc: &Scenario, monitor_alloc: bool) -> Result<RunLog, String> {
    let sc = sc.clone();
    let h = std::thread::Builder::new()
        .name("sim".into())
        .stack_size(2 * 1024 * 1024)
        .spawn(move || {
            crate::entropy::install(sc.entropy_seed);
            let mut seed_bytes = [0u8; 32];
            seed_bytes[..8].copy_from_slice(&sc.tokio_seed.to_le_bytes());
            let rt = tokio::runtime::Builder::new_current_thread()
                .enable_time()
                .start_paused(true)
                .rng_seed(tokio::runtime::RngSeed::from_bytes(&seed_bytes))
                .build()
                .expect("runtime");
            if monitor_alloc {
                crate::alloc::monitor(true);
            }
            let mut out = rt.block_on(execute(&sc));
            drop(rt);
            if monitor_alloc {
                out.stats.insert("alloc_peak".into(), crate::alloc::peak() as u64);
                crate::alloc::monitor(false);
            }
            out
        })
        .map_err(|e| format!("spawn: {e}"))?;
    h.join().map_err(|e| {
        if let Some(s) = e.downcast_ref::<String>() {
            s.clone()
        } else if let Some(s) = e.downcast_ref::<&str>() {
            s.to_string()
        } else {
            "scenario thread panicked".to_string()
        }
    })
}

// ---------------------------------------------------------------------------------------------
// helpers shared by oracles

/// One datagram on the wire as the oracles see it.
#[derive(Clone, Debug)]
pub struct Wire<'a> {
    pub idx: usize,
    pub t: Ms,
    pub seq: u64,
    pub src: SocketAddr,
    pub dst: SocketAddr,
    pub bytes: &'a [u8],
    pub msg: Option<Msg>,
    pub queued: bool,
}

pub fn sends<'a>(log: &'a [Ev]) -> impl Iterator<Item = Wire<'a>> {
    log.iter().enumerate().filter_map(|(idx, e)| match e {
        Ev::Send { t, seq, src, dst, bytes, outcome, .. } => Some(Wire {
            idx,
            t: *t,
            seq: *seq,
            src: *src,
            dst: *dst,
            bytes,
            msg: Msg::parse(bytes),
            queued: matches!(outcome, SendOutcome::Queued { .. }),
        }),
        _ => None,
    })
}

pub fn delivers<'a>(log: &'a [Ev]) -> impl Iterator<Item = Wire<'a>> {
    log.iter().enumerate().filter_map(|(idx, e)| match e {
        Ev::Deliver { t, seq, src, dst, bytes, dst_kind, .. } => {
            if *dst_kind == crate::log::EpKind::Nobody {
                None
            } else {
                Some(Wire {
                    idx,
                    t: *t,
                    seq: *seq,
                    src: *src,
                    dst: *dst,
                    bytes,
                    msg: Msg::parse(bytes),
                    queued: true,
                })
            }
        }
        _ => None,
    })
}
